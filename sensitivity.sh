#!/bin/sh
# Sensitivity self-test: applies deliberate property-breaking changes to /repo one at a time,
# runs the quick check of the property each one breaks and expects a replaying VIOLATION
# (exit 1); /repo is restored after every patch, also on interruption.
#   ./sensitivity.sh                 all of mutants/*.patch and seeded/*/patch.diff
#   ./sensitivity.sh <patch> ...     only these
# A patch names its property by its file name (cNN-...) or, under seeded/, by meta.json.
# Not registered in MANIFEST.json (it edits /repo); results are summarised in DESIGN.md.
cd /verif || exit 2
if [ -n "$(git -C /repo status --porcelain --untracked-files=no)" ]; then
    echo "refusing to run: /repo has uncommitted changes"; exit 2
fi
restore() { git -C /repo checkout -- . ; git -C /repo clean -fdq src tests ; }
trap 'restore; exit 2' INT TERM
if [ $# -gt 0 ]; then patches="$*"; else patches="$(ls mutants/*.patch seeded/*/patch.diff 2>/dev/null)"; fi
caught=0; missed=0; skipped=0
for p in $patches; do
    case "$p" in
        seeded/*|*/seeded/*) prop=$(python3 -c "import json,sys;print(json.load(open(sys.argv[1]))['property'])" "$(dirname "$p")/meta.json") ;;
        *) prop=$(basename "$p" | cut -c1-3 | tr a-z A-Z) ;;
    esac
    if ! git -C /repo apply --check "$(realpath "$p")" 2>/dev/null; then
        echo "SKIP  $p (does not apply to the current tree)"; skipped=$((skipped+1)); continue
    fi
    git -C /repo apply "$(realpath "$p")"
    out=$(VERIF_NO_EVIDENCE=1 ./check "$prop" quick 2>&1); code=$?
    restore
    if [ $code -eq 1 ] && echo "$out" | grep -q "^VIOLATION property=$prop"; then
        echo "CAUGHT $prop $p :: $(echo "$out" | grep -A1 '^VIOLATION' | sed -n 2p | cut -c1-160)"; caught=$((caught+1))
    else
        echo "MISSED $prop $p (exit $code) :: $(echo "$out" | tail -n 2 | tr '\n' ' ' | cut -c1-200)"; missed=$((missed+1))
    fi
done
# make sure the harness is rebuilt against the restored tree
./check setup >/dev/null 2>&1
echo "sensitivity: caught=$caught missed=$missed skipped=$skipped"
[ $missed -eq 0 ]
