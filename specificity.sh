#!/bin/sh
# Specificity self-test: applies property-PRESERVING changes (benign/*.patch: renamed poll
# labels, extra polls, reworded errors, other exit code, other deterministic orders, ...) to
# /repo one at a time and expects every check to stay silent (exit 0, no VIOLATION).
# /repo is restored after every patch. Not registered in MANIFEST.json (it edits /repo).
cd /verif || exit 2
if [ -n "$(git -C /repo status --porcelain --untracked-files=no)" ]; then
    echo "refusing to run: /repo has uncommitted changes"; exit 2
fi
restore() { git -C /repo checkout -- . ; git -C /repo clean -fdq src tests ; }
trap 'restore; exit 2' INT TERM
if [ $# -gt 0 ]; then patches="$*"; else patches="$(ls benign/*.patch)"; fi
bad=0
for p in $patches; do
    git -C /repo apply "$(realpath "$p")" || { echo "SKIP $p"; continue; }
    for prop in ${SPEC_PROPS:-C04 C08 C09 C11 C12 C19}; do
        out=$(VERIF_NO_EVIDENCE=1 ./check "$prop" quick 2>&1); code=$?
        if [ $code -ne 0 ] || echo "$out" | grep -q "^VIOLATION"; then
            echo "ALARM $prop on $p (exit $code) :: $(echo "$out" | grep -A1 '^VIOLATION\|HARNESS' | head -3 | tr '\n' ' ' | cut -c1-300)"; bad=$((bad+1))
        fi
    done
    restore
    echo "done $p"
done
./check setup >/dev/null 2>&1
echo "specificity: false alarms=$bad"
[ $bad -eq 0 ]
