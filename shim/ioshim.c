// LD_PRELOAD shim: the simulator's side of the process boundary (seam S6) for the CLI child.
// Owns read/write/open*/getrandom of the child and executes a fault plan passed in
// environment variables.  The child is single-threaded and sequential, so (argv, files,
// plan) determines its behaviour.
//
//   IOSHIM_SEED=<u64>        PRNG seed for short / interrupted calls
//   IOSHIM_SHORT=1           reads and writes transfer only 1..3 bytes with probability 1/2
//   IOSHIM_EINTR=1           reads and writes fail with EINTR with probability 1/4 (streak <= 3)
//   IOSHIM_HASH=<u64>        getrandom() returns bytes derived from this value
//   IOSHIM_OPEN_EACCES=<sfx> open of a path ending in <sfx> fails with EACCES
//   IOSHIM_CREATE_FAIL=<sfx> open(O_CREAT) of a path ending in <sfx> fails with ENOSPC
//   IOSHIM_WFAIL=<cls>:<n>:<errno>  n-th write (1-based) to class cls fails; cls is
//                            "stdout" or "out" (a file whose path ends in IOSHIM_OUT_SUFFIX)
//   IOSHIM_OUT_SUFFIX=<sfx>  identifies the --output file
//   IOSHIM_STATS=<path>      counters are written here at exit
#define _GNU_SOURCE
#include <errno.h>
#include <fcntl.h>
#include <stdarg.h>
#include <stdint.h>
#include <stdlib.h>
#include <string.h>
#include <sys/syscall.h>
#include <sys/types.h>
#include <unistd.h>

static int inited = 0;
static uint64_t rng_state = 0x9E3779B97F4A7C15ull;
static int opt_short = 0, opt_eintr = 0, opt_hash = 0;
static uint64_t hash_seed = 0, hash_calls = 0;
static const char *open_eacces = 0, *create_fail = 0, *out_suffix = 0, *stats_path = 0;
static int wfail_cls = 0; /* 1 stdout, 2 out */
static long wfail_n = 0;
static int wfail_errno = 0;
static int out_fd = -1;
static long writes_stdout = 0, writes_out = 0;
static int eintr_streak = 0;
static long c_read = 0, c_read_short = 0, c_read_eintr = 0, c_write = 0, c_write_short = 0,
            c_write_eintr = 0, c_write_fail = 0, c_open_eacces = 0, c_create_fail = 0,
            c_getrandom = 0;

static uint64_t next_u64(void) {
    uint64_t z = (rng_state += 0x9E3779B97F4A7C15ull);
    z = (z ^ (z >> 30)) * 0xBF58476D1CE4E5B9ull;
    z = (z ^ (z >> 27)) * 0x94D049BB133111EBull;
    return z ^ (z >> 31);
}

static int ends_with(const char *s, const char *sfx) {
    if (!s || !sfx) return 0;
    size_t a = strlen(s), b = strlen(sfx);
    return b > 0 && a >= b && memcmp(s + a - b, sfx, b) == 0;
}

static void init(void) {
    if (inited) return;
    inited = 1;
    const char *e;
    if ((e = getenv("IOSHIM_SEED"))) rng_state ^= strtoull(e, 0, 10);
    if ((e = getenv("IOSHIM_SHORT"))) opt_short = atoi(e);
    if ((e = getenv("IOSHIM_EINTR"))) opt_eintr = atoi(e);
    if ((e = getenv("IOSHIM_HASH"))) { opt_hash = 1; hash_seed = strtoull(e, 0, 10); }
    open_eacces = getenv("IOSHIM_OPEN_EACCES");
    create_fail = getenv("IOSHIM_CREATE_FAIL");
    out_suffix = getenv("IOSHIM_OUT_SUFFIX");
    stats_path = getenv("IOSHIM_STATS");
    if ((e = getenv("IOSHIM_WFAIL"))) {
        if (!strncmp(e, "stdout:", 7)) { wfail_cls = 1; e += 7; }
        else if (!strncmp(e, "out:", 4)) { wfail_cls = 2; e += 4; }
        if (wfail_cls) {
            wfail_n = strtol(e, (char **)&e, 10);
            if (*e == ':') wfail_errno = atoi(e + 1);
        }
    }
}

static char *put_num(char *p, const char *k, long v) {
    while (*k) *p++ = *k++;
    char tmp[24]; int n = 0;
    if (v == 0) tmp[n++] = '0';
    while (v > 0) { tmp[n++] = '0' + (v % 10); v /= 10; }
    while (n > 0) *p++ = tmp[--n];
    *p++ = '\n';
    return p;
}

__attribute__((destructor)) static void fini(void) {
    if (!stats_path) return;
    char buf[512], *p = buf;
    p = put_num(p, "read=", c_read);
    p = put_num(p, "read_short=", c_read_short);
    p = put_num(p, "read_eintr=", c_read_eintr);
    p = put_num(p, "write=", c_write);
    p = put_num(p, "write_short=", c_write_short);
    p = put_num(p, "write_eintr=", c_write_eintr);
    p = put_num(p, "write_fail=", c_write_fail);
    p = put_num(p, "open_eacces=", c_open_eacces);
    p = put_num(p, "create_fail=", c_create_fail);
    p = put_num(p, "getrandom=", c_getrandom);
    long fd = syscall(SYS_openat, AT_FDCWD, stats_path, O_WRONLY | O_CREAT | O_TRUNC, 0644);
    if (fd >= 0) {
        syscall(SYS_write, fd, buf, (size_t)(p - buf));
        syscall(SYS_close, fd);
    }
}

static int maybe_eintr(void) {
    if (!opt_eintr) return 0;
    if (eintr_streak >= 3) { eintr_streak = 0; return 0; }
    if ((next_u64() & 3) == 0) { eintr_streak++; return 1; }
    eintr_streak = 0;
    return 0;
}

ssize_t read(int fd, void *buf, size_t count) {
    init();
    c_read++;
    if (maybe_eintr()) { c_read_eintr++; errno = EINTR; return -1; }
    if (opt_short && count > 1 && (next_u64() & 1)) {
        size_t n = 1 + (size_t)(next_u64() % 3);
        if (n < count) { count = n; c_read_short++; }
    }
    long r = syscall(SYS_read, fd, buf, count);
    return (ssize_t)r;
}

ssize_t write(int fd, const void *buf, size_t count) {
    init();
    c_write++;
    int cls = fd == 1 ? 1 : (fd == out_fd && out_fd >= 0 ? 2 : 0);
    if (cls == 1) writes_stdout++;
    if (cls == 2) writes_out++;
    if (wfail_cls && cls == wfail_cls) {
        long n = cls == 1 ? writes_stdout : writes_out;
        if (n >= wfail_n) { c_write_fail++; errno = wfail_errno ? wfail_errno : EIO; return -1; }
    }
    if (maybe_eintr()) { c_write_eintr++; errno = EINTR; return -1; }
    if (opt_short && count > 1 && (next_u64() & 1)) {
        size_t n = 1 + (size_t)(next_u64() % 3);
        if (n < count) { count = n; c_write_short++; }
    }
    long r = syscall(SYS_write, fd, buf, count);
    return (ssize_t)r;
}

static int do_open(int dirfd, const char *path, int flags, mode_t mode) {
    init();
    if (open_eacces && ends_with(path, open_eacces)) { c_open_eacces++; errno = EACCES; return -1; }
    if (create_fail && (flags & O_CREAT) && ends_with(path, create_fail)) { c_create_fail++; errno = ENOSPC; return -1; }
    long fd = syscall(SYS_openat, dirfd, path, flags, mode);
    if (fd >= 0 && out_suffix && ends_with(path, out_suffix) && (flags & (O_WRONLY | O_RDWR))) out_fd = (int)fd;
    return (int)fd;
}

int open(const char *path, int flags, ...) {
    mode_t mode = 0;
    if (flags & (O_CREAT | O_TMPFILE)) { va_list ap; va_start(ap, flags); mode = va_arg(ap, mode_t); va_end(ap); }
    return do_open(AT_FDCWD, path, flags, mode);
}
int open64(const char *path, int flags, ...) {
    mode_t mode = 0;
    if (flags & (O_CREAT | O_TMPFILE)) { va_list ap; va_start(ap, flags); mode = va_arg(ap, mode_t); va_end(ap); }
    return do_open(AT_FDCWD, path, flags | O_LARGEFILE, mode);
}
int openat(int dirfd, const char *path, int flags, ...) {
    mode_t mode = 0;
    if (flags & (O_CREAT | O_TMPFILE)) { va_list ap; va_start(ap, flags); mode = va_arg(ap, mode_t); va_end(ap); }
    return do_open(dirfd, path, flags, mode);
}
int openat64(int dirfd, const char *path, int flags, ...) {
    mode_t mode = 0;
    if (flags & (O_CREAT | O_TMPFILE)) { va_list ap; va_start(ap, flags); mode = va_arg(ap, mode_t); va_end(ap); }
    return do_open(dirfd, path, flags | O_LARGEFILE, mode);
}

ssize_t getrandom(void *buf, size_t len, unsigned int flags) {
    init();
    c_getrandom++;
    if (!opt_hash) return (ssize_t)syscall(SYS_getrandom, buf, len, flags);
    uint64_t x = hash_seed ^ (hash_calls++ * 0xA0761D6478BD642Full);
    unsigned char *o = buf;
    for (size_t i = 0; i < len; i++) {
        if ((i & 7) == 0) { x += 0x9E3779B97F4A7C15ull; }
        uint64_t z = x; z = (z ^ (z >> 30)) * 0xBF58476D1CE4E5B9ull; z = (z ^ (z >> 27)) * 0x94D049BB133111EBull; z ^= z >> 31;
        o[i] = (unsigned char)(z >> ((i & 7) * 8));
    }
    return (ssize_t)len;
}
