#!/usr/bin/env python3
"""Regenerates DESIGN.md section 10.3 from the last ./sensitivity.sh output (out/sensitivity-last.txt)."""
import re
lines=open('/verif/out/sensitivity-last.txt').read().splitlines()
status={}
for l in lines:
    m=re.match(r'(CAUGHT|MISSED) (C\d\d) (\S+)',l)
    if m: status[m.group(3)]=m.group(1).lower()
mut={
'c04-f4-truncated-id':'reverse of fix F4: `SyntaxNodeID = u32`',
'c04-id-from-byte-range':'node id derived from (start byte, end byte): same-range parent/child conflated',
'c04-lazy-inherit-skips-parent':'lazy inherit walk starts at the grandparent',
'c04-strict-duplicate-overwrites':'strict: a second definition overwrites instead of failing',
'c08-edge-attrs-in-push-order':'lazy: edge attributes evaluated together with edges in push order',
'c09-f3-lazy-edge-replaces-attrs':'reverse of fix F3',
'c09-f6-lazy-conflict-unwrap-panic':'reverse of fix F6',
'c09-add-edge-resets-existing':'`add_edge` resets the attributes of an existing edge',
'c09-attributes-add-keeps-old-silently':'`Attributes::add` accepts a conflicting `#null` silently',
'c09-strict-edge-attr-conflict-swallowed':'strict: edge-attribute conflict swallowed',
'c11-wrap-cancelled':'`with_context` wraps `Cancelled`',
'c11-drop-strict-scan-poll':'strict scan loop loses its poll',
'c11-drop-lazy-match-poll':'lazy per-match poll dropped',
'c11-drop-value-poll':'lazy per-value poll dropped',
'c11-strict-attr-poll-dropped':'strict per-attribute poll dropped',
'c11-lazy-attr-poll-ignored':'lazy: result of the per-attribute poll ignored',
'c11-lazy-evaluate-all-ignores-errors':'lazy `evaluate_all` ignores errors (continues after cancellation)',
'c11-scoped-scope-error-remapped':'scope-evaluation errors (incl. `Cancelled`) re-mapped to another variant',
'c12-f1-unused-captures-hash-order':'reverse of fix F1',
'c12-f2-scoped-force-hash-order':'reverse of fix F2',
'c19-f5-json-also-on-stdout':'reverse of fix F5',
'c19-lazy-flag-ignored':'CLI ignores `--lazy`',
'c19-exit-zero-on-execution-error':'CLI exits 0 on an execution error',
'c19-json-write-not-write-all':'`write` instead of `write_all` for JSON on stdout',
'c19-global-rsplit':'`--global` split at the last `=`',
'c19-quiet-suppresses-json':'`--quiet` suppresses JSON on stdout',
'c19-parse-error-gate-inverted-with-lazy':'syntax-error gate skipped with `--lazy`',
}
# (description, caught at first attempt?, what was added)
seed={
'C04-a-1':('strict: cache of the ancestor that supplied an inherited value goes stale when a nearer node is defined later',False,'order-aware strict model + interleaved definers/readers'),
'C04-a-2':('lazy: duplicate definition not reported when both come from one statement with the same full-match node',False,'definers on a fixed node while the match varies; definers inside `for`'),
'C04-b-1':('strict: inherited search stops at the nearest ancestor carrying *any* scoped variable',False,'an unrelated variable on nodes between reader and defining ancestor'),
'C04-b-2':('lazy: ancestor walk replaced by byte-range containment',True,''),
'C04-b-3':('lazy: scoped value stored without memoising slot (`(node)` re-evaluated per read)',False,'effectful values `(node)` read through several routes; shared-node oracle'),
'C08-a-1':('checker: comprehension counted local when only its source list is local',False,'near misses of the locality rule on a single-instance node; rejection must hold in every order'),
'C08-a-2':('lazy: edge attributes attached to the latest `edge` statement, dropped when the edge already exists',False,'two stanzas creating the same edge with *different* attribute names'),
'C08-b-1':('lazy: inherited scoped variables resolved early, missing a shadowing definition added by a later match',False,'shadowed inherited variable group'),
'C08-b-2':('lazy: duplicate check moved to `add` for plain scopes; computed-scope + capture-scope duplicate overwritten',False,'duplicate through a capture and through a local alias (failing variant)'),
'C08-b-3':('checker: capture quantifier cached per name across stanzas',False,'one capture name with different quantifiers; a panic in some orders only is a violation'),
'C09-a-1':('lazy: re-created edge gets "missing" debug attributes through `Attributes::add` (overwrites)',False,'debug-attribute configuration as a swarm dimension (invariants only)'),
'C09-a-2':('lazy: edge-attribute conflict only reported if the attribute was set in this execution',True,''),
'C09-b-1':('edge lookup: linear scan of 8 edges + binary search of the rest with a wrong insertion index (>= 10 edges)',True,''),
'C09-b-2':('lazy: an `attr` skipped when the "same statement and match" already set it',False,'one statement assigning several values: loops, repeated names'),
'C09-b-3':('strict: attributes of one statement collected into a map first (same name twice collapses)',False,'repeated name in one statement; pre-existing value preceded by a different one'),
'C09-c-1':('`SyntaxNodeRef` equality by kind and start position instead of id',False,'syntax-node-valued attributes (the stanza\'s capture) with node identity across trees'),
'C09-c-2':('`execute_into` truncates the nodes of a cancelled call, leaving edges to them behind',False,'invariant: every edge sink and graph-node reference is an existing node'),
'C09-c-3':('`get_edge_mut` position cache never invalidated by `add_edge`',True,''),
'C11-a-1':('lazy: hand-written context wrapper around scope evaluation wraps `Cancelled`',True,''),
'C11-a-2':('lazy: `LazyCall` keeps evaluating the remaining arguments after the first error',True,''),
'C11-b-1':('lazy: thread-local nesting counter leaked on the error path; after ~290 cancelled runs a cancellation surfaces as another error',False,'replay repeats the whole enumeration in discovery order on one thread'),
'C11-b-2':('lazy: deferred `print` statements evaluated even after the edge/attr phase failed',False,'`print` statements in generated programs'),
'C11-b-3':('lazy: `print` swallows errors of its arguments (incl. `Cancelled`)',False,'`print` statements in generated programs'),
'C11-c-1':('lazy: `LazySet::evaluate` drops failing elements (`flat_map` over `Result`)',True,''),
'C11-c-2':('a zero-sized caller flag is replaced by `NoCancellation`',False,'a third of the cases use a zero-sized flag type with its state elsewhere'),
'C11-c-3':('lazy: thunk vector reused through a thread-local, emptied only on success',True,''),
'C12-a-1':('strict: scoped-variable table in a `thread_local`, cleared only on success',True,''),
'C12-a-2':('per-thread cache of rendered statement text keyed by the statement\'s address',False,'Rust-heap seam (LIFO arena) + other files loaded/dropped on the same thread'),
'C12-b-1':('defaults of globals frozen per loaded file by the first execution (`OnceLock`)',False,'per-step / per-task supplies of the globals'),
'C12-b-2':('check-then-act race between three lock acquisitions in a process-wide regex cache for `replace`',False,'— blind spot (10.4); the check prints a NOTE naming the new shared state'),
'C12-b-3':('strict: "last matching arm" hint stored in the `scan` AST node (interior mutability)',True,''),
'C12-c-1':('lazy: trace logging lists (and thereby forces) every variable: results depend on the process log level',False,'process log level as an environment dimension (sink logger that formats every record)'),
'C12-c-2':('process-wide cache of compiled scan regexes with a stale index after eviction (> 64 patterns)',False,'sub-check (e): re-load texts that are 150-700 loads old; thousands of distinct scan patterns'),
'C12-c-3':('synthetic full-match capture named from a process-wide counter: diagnostics differ per load',True,''),
'C04-d-1':('lazy: capture-scoped definitions indexed at `add`, others at `force`; a capture-vs-other duplicate is never compared',False,'definers whose scope is a local alias or a loop variable'),
'C04-d-2':('lazy: ancestors collected with a TreeCursor descent by byte offset: zero-width nodes are never reached',False,'sources with empty (zero-width) blocks and syntax faults; readers on blocks and on every child node'),
'C04-d-3':('strict: inherit lookup descends from the root and returns the first (outermost) hit',True,''),
'C08-d-1':('parser: newline separator dropped between stanza queries in the merged query (a bare `_` query is absorbed)',False,'a stanza whose query is the bare wildcard; panics at load time are caught per order'),
'C08-d-2':('lazy: stanza capture index used for the full match with debug attributes (wrong match node or panic)',False,'a quarter of the cases run with debug attributes (location attribute dropped, match node kept)'),
'C08-d-3':('lazy: store reclaimed after matches that "left nothing behind" — print statements not counted',False,'print-only stanzas, also on the last node of the source next to a building stanza'),
'C09-d-1':('lazy: edges added in bulk with an unstable sort before dedup (attributes of existing edges lost beyond ~20 edges)',False,'hub histories: 22-48 nodes, dozens of attributed edges, 10+ re-created'),
'C09-d-2':('strict: attribute conflict decided on the rendered strings (`1` vs `"1"`)',True,''),
'C09-d-3':('strict: attributes expanded from a shorthand never conflict',False,'touch programs use an attribute shorthand'),
'C11-d-1':('lazy: a failed call argument reaches the function through `param()`; variadic stdlib functions read it as "no more parameters"',True,''),
'C11-d-2':('strict: `check(..).and(value.evaluate(..))` evaluates the attribute value after the poll has signalled',True,''),
'C11-d-3':('`some`/`none` conditions treat a value that fails to evaluate (incl. `Cancelled`) as absent',True,''),
'C12-d-1':('parser: merged-query scratch buffer in a `thread_local`, cleared only on success (a rejected load poisons the next one)',False,'rejected loads (parse, check and query errors) as steps of a history'),
'C12-d-2':('`Identifier` interned in a process-wide pool wiped at 1024 entries, equality by pointer',False,'diverse identifiers; replay by re-running the worker\'s history in a fresh process'),
'C12-d-3':('`Functions` copy-on-write over a cached stdlib table: `add` by a sole owner modifies the cache',False,'another caller\'s function table (override + extra function) built first and kept alive'),
'C19-d-1':('`--global` declared with `multiple_values(true)`: a following positional is swallowed',True,''),
'C19-d-2':('file reader appends a newline to files that lack one',False,'sources without a final newline; an echo program (module text and extent)'),
'C19-d-3':('`--global` name and value trimmed',False,'global values with leading/trailing blanks; echo program'),
'C04-e-1':('lazy: inherited value evaluated while the per-name cell is still `Forcing` (a value that reads the same name on another node fails as "recursively defined")',False,'definitions whose value copies the same variable from another node'),
'C04-e-2':('strict: the inherit walk passes over ancestors whose value is `#null`',False,'`#null`-valued definitions'),
'C04-e-3':('lazy: the inherit walk gives up after 256 ancestors',False,'deeply nested sources (300-600 levels) with far-away definitions'),
'C08-e-1':('lazy: match limit 1024 on the merged-query cursor (matches silently dropped)',False,'sibling pair/triple patterns with thousands of in-flight matches'),
'C08-e-2':('lazy: scope held in a local variable resolved at definition time, stored as a plain node (duplicate detection and order differ)',False,'definitions through an alias of a capture in one stanza and through the capture in another'),
'C08-e-3':('lazy: forcing depth capped at 1000 (`ValueNestedTooDeeply` in some orders only)',False,'chains of a thousand dependent lazy values (on a big-stack thread)'),
'C09-e-1':('`Attributes`: 8 inline slots + overflow map; `add` consults only the overflow map once it exists',True,''),
'C09-e-2':('hand-written `Ord for Value`: sets of equal size compare equal',False,'set-valued attribute literals'),
'C09-e-3':('strict `attr (node)`: attribute set moved out of the graph, lost when the statement fails',True,''),
'C11-e-1':('lazy: bare errors from loop/comprehension sources re-labelled `ExpectedList`',True,''),
'C11-e-2':('lazy: errors of the final `evaluate_all` reported only if "structural"',True,''),
'C11-e-3':('lazy: scope-evaluation failures mapped to `InvalidVariableScope`',True,''),
'C12-e-1':('quantified captures sorted and deduplicated by `SyntaxNodeRef` (node address)',True,''),
'C12-e-2':('lazy: 1.5 s wall-clock timeout on the merged-query cursor (matches silently dropped)',False,'clock seam S7: interposed `clock_gettime`, seeded fast-forward per caller thread'),
'C12-e-3':('strict: parameter stack hoisted into `File` behind a `Mutex`, locked per push/drain',False,'— blind spot (10.4): symptoms are seen (divergent shared runs after a scheduler stall) but do not replay; the check exits 2, not 1'),
'C19-e-1':('exit status = number of parse errors (0 at 256)',False,'sources with exactly 256 syntax errors'),
'C19-e-2':('CLI skips `execute` for files without stanzas (globals never checked)',False,'stanza-less DSL files with declared globals'),
'C19-e-3':('CLI pre-check of declared globals ignores defaults',True,''),
'C12-f-1':('lazy: process-wide atomic nesting counter for value evaluation, limit 4096 (depths of concurrent executions add up)',False,'sub-check (c): several workers deep inside chains of > 1000 lazy values at the same time'),
'C12-f-2':('per-`scan` memo behind an `RwLock`; read-to-write upgrade with a stale index (cross-talk between threads)',True,'(caught through the immutability clause: the memo is part of the `Debug` rendering of the loaded file, which changes with every execution — not through the race itself, which needs pre-emption between two uncontended lock operations, 10.4)'),
'C12-f-3':('`print` holds the stderr lock while its arguments (caller functions, polls) are evaluated',False,'— not caught, and deliberately so: executions are serialised but every result equals the isolated run; it fails only for callers whose callbacks wait for another execution, which the quantifier does not include. Another sub-agent supplied the same mechanism as a *benign* change (benign/agent-f3-2), which must not alarm'),
'C12-f-4':('`scan` loops give up after 1 s of monotonic time (`Instant`)',True,''),
'C12-f-5':('lazy: final sweep forces a `HashSet` of unforced thunks (which failing value is reported depends on hash order)',True,''),
'C12-f-6':('lazy: stack-usage guard measured from the highest stack address ever seen on the thread',False,'caller stack depth as an environment dimension (steps of a history started up to 3 MiB deeper)'),
'C04-g-1':('lazy: per-node memo of the ancestor that last supplied an inherited value, shared by all variable names',False,'a second inherited name, defined on the root and on nearer containers, read from the same nodes as the first'),
'C04-g-2':('strict: a second `let` with an equal value is accepted silently',True,''),
'C08-g-1':('checker: a `var` stays local until something non-local is assigned to it (a loop body is checked once)',False,'near miss: mutable flag used as a condition, then assigned a scoped-derived value inside a loop'),
'C08-g-2':('lazy: scopes of one name forced incrementally, earlier definitions visible while the next scope is computed (`let @m.nx.nx = ..`)',False,'a definition whose scope reads the variable being defined, next to the base definition, same query shape; given its own probability (first placement was too rare: caught only at 5x scale)'),
'C09-g-1':('`Attributes::add` merges two set values instead of reporting a conflict',True,''),
'C09-g-2':('strict: an edge attribute that already exists is rejected even when the value is equal',True,''),
'C11-g-1':('strict: attributes generated by a shorthand bypass `Attribute::execute` and lose their poll',False,'template: one `attr` whose single attribute is a shorthand expanding to 2-8 attributes'),
'C11-g-2':('lazy `scan`: per-arm poll inside a `filter_map` closure, `check(..).ok()?` (cancellation makes the arm "not match")',True,''),
'C19-g-1':('`--global` names validated as ASCII identifiers',False,'declared globals with non-ASCII names; undeclared globals named `build.id`, `a-b`, `x y`, `1st`, `π`'),
'C19-g-2':('sources above 256 KiB are executed lazily without `--lazy`',False,'a program that fails strictly and succeeds lazily, on sources of 60 B to 1.2 MB'),
'C04-h-1':('strict: inherited value cached per (node, name); `set` on the ancestor does not invalidate it',False,'containers with mutable variables, the root re-assigned between two rounds of inherited reads'),
'C04-h-2':('lazy: the inherit walk stops at an `ERROR` ancestor',True,''),
'C04-h-3':('checker: comprehension element variables rejected as scopes (`[ y.tag for y in @ys ]`)',False,'list readers that also read through list and set comprehensions; a loader that rejects a resolvable schema program is a violation (was a harness error)'),
'C08-h-1':('lazy: a `#null` attribute value is skipped if the attribute exists (asymmetric tolerance)',False,'same-shape pair putting `#null` and a value on one attribute of one node'),
'C08-h-2':('lazy: statements whose operands are literals, captures or globals are applied immediately',False,'graph-node globals on a pre-seeded graph; edge and edge attribute in different same-shape stanzas'),
'C08-h-3':('`Attributes::add` extends list/set values instead of conflicting (element order follows stanza order)',False,'same-shape pair putting two different lists on one attribute'),
'C09-h-1':('attribute names equal to the configured debug attribute names are rejected',False,'— missed: needs a model of the debug attributes (steps run with them are judged by the invariants only)'),
'C09-h-2':('lazy: `attr` on an edge requires an `edge` statement in the same execution',True,''),
'C09-h-3':('list values compared ignoring order',False,'near-miss conflicts: same elements in another order or collection kind, same text as another type, trailing blank'),
'C11-h-1':('lazy: `debug_assert!` on the shared parameter buffer fires when a later argument is cancelled',False,'the library is built with debug assertions and overflow checks'),
'C11-h-2':('lazy `scan`: the cancellation error is re-created from the poll label',False,'a third of the cases use a flag that signals with its own error value, which must come back'),
'C11-h-3':('strict: a `scan` nested in a scan arm loses its per-iteration poll',False,'template: scan inside a scan arm'),
'C12-h-1':('cancellation polls throttled 1:32 by a process-wide counter',True,''),
'C12-h-2':('"did you mean" hint for undefined functions chosen by `min_by_key` over a `HashMap`',False,'undefined function names one edit away from two library functions'),
'C12-h-3':('`named-child-index` remembers sibling positions by node id in a `thread_local`',False,'inputs applying every syntax function to every statement and identifier; histories in which two trees take over each other\'s memory; coalescing first-fit layout policy'),
'C19-h-1':('string values of `--global` wrapped in a list for `*`/`+` globals',True,''),
'C19-h-2':('`--output -` means stdout',False,'output file named `-`'),
'C19-h-3':('a leading byte-order mark is stripped from both input files',False,'files starting with a byte-order mark'),
'C19-a-1':('`--output` file opened without truncation',True,''),
'C19-a-2':('parse-error discovery skips MISSING anonymous tokens',False,'MISSING-token-only syntax faults in sources'),
'C19-b-1':('`--global` values split at commas',False,'global values with commas, option-like and quoted values'),
'C19-b-2':('pretty output re-terminated: an empty graph prints a newline',True,''),
'C19-b-3':('`--quiet` without `--json` returns before executing',True,''),
}
out=["| Change | What it does | Check | First attempt | Now | What was added |","|---|---|---|---|---|---|"]
for k in sorted(seed):
    d,first,rem=seed[k]
    out.append(f"| seeded/{k} | {d} | {k[:3]} | {'caught' if first else 'missed'} | {status.get(f'seeded/{k}/patch.diff','?')} | {rem or '—'} |")
out2=["| Mutant | What it does | Check | Result |","|---|---|---|---|"]
for k in sorted(mut):
    out2.append(f"| {k} | {mut[k]} | {k[:3].upper()} | {status.get(f'mutants/{k}.patch','?')} |")
n=len(seed); first=sum(1 for v in seed.values() if v[1]); now=sum(1 for k in seed if status.get(f'seeded/{k}/patch.diff')=='caught')
text=f'''### 10.3 Seeded changes (written by independent sub-agents) and my own mutants

{n} changes were written in eight waves by sub-agents that were given only the text of one
property and a scratch worktree (later waves: also one-line descriptions of the
ideas already explored and a focus area, to force different mechanisms).
Every change compiles and passes the 162 tests + doctest; each has a demonstration that fails
with it and passes without; I confirmed all of that myself in the worktrees before keeping it
under `/verif/seeded/`. "First attempt" is the result of the checks as they were when the
change arrived; "now" is `./sensitivity.sh` on the final checks (quick tier, default seed).

'''+"\n".join(out)+f'''

{first} of {n} were caught at the first attempt; {now-first} more after the checks were
strengthened as listed (workload and oracle extensions, new seams and environment
dimensions), without loosening anything; {n-now} remain missed (C12-b-2: blind spot, 10.4; C12-f-3 and C09-h-1: see their rows).
The last full `./sensitivity.sh` run (all 136 changes against the final checks) also exposed a
regression of my own: seeded/C08-b-2, caught since wave b, was missed once the workloads of
waves g-h had shifted the seeded stream — the pair of stanzas that exposes it was mostly
trimmed away before execution. Rare workload pairs are now generated after the trimming step
with a probability of their own, and all 17 C08 changes were re-run: caught.

My own mutants (`/verif/mutants/`, all compile and pass the test-suite; the CLI ones
trivially, since the suite does not build the CLI):

'''+"\n".join(out2)+'''

**Specificity.** 49 property-preserving changes (`/verif/benign/`: 9 of mine, 40 written by
eight further sub-agents who were asked for legitimate refactorings that change what the
properties do not constrain — renamed, added and moved polls; reworded errors and fuller
context chains; other deterministic choices among simultaneous errors; BTreeMaps for
HashMaps; lazy matching stanza by stanza (other node numbering); fail-fast duplicate
detection; conflicting assignments that no longer overwrite; `UndefinedEdge` before value
evaluation; compact JSON; distinct CLI exit codes, other stderr wording, source checked before
the DSL file; edges stored in creation order; and, for the synchronisation seams, *correct*
shared state: a process-wide regex cache filled under one lock, per-file statistics behind a
`Mutex` that is **held while caller functions and the flag are called**, `OnceLock` tables,
thread-local leased cursors and buffers, clock reads and atomic counters used for log lines
only; in the last wave also correct versions of optimisations that had been seeded as
broken: an ancestor memo keyed by (node, name), sorted-vector attributes, bulk edge insertion
that keeps existing attributes, many more polls with new labels, phase-specific exit codes,
a parser that skips a byte-order mark) were run through all six checks with `./specificity.sh`. One alarm was raised, by
`agent-g2-4` (edges in creation order), and was a false alarm of the C09 oracle; it was
corrected (10.2, item 7). Final run: no alarm.

'''
s=open('/verif/DESIGN.md').read()
a=s.index('### 10.3 ')
b=s.index('### 10.4 ')
open('/verif/DESIGN.md','w').write(s[:a]+text+s[b:])
print(n,first,now)
