//! C19 — the command-line tool reports exactly what the library computes.
//!
//! The real binary (built from /repo with `--features cli`) runs as a child process in a
//! per-run sandbox directory; the harness runs the library in-process on the same bytes.
//! An LD_PRELOAD shim owns the child's read/write/open*/getrandom and executes a seeded
//! fault plan (short and interrupted system calls, unreadable inputs, failing sinks).

use std::path::Path;
use std::path::PathBuf;
use std::process::Command;
use std::process::Stdio;

use serde_json::json;
use serde_json::Value as J;
use tree_sitter_graph::functions::Functions;
use tree_sitter_graph::graph::Value;
use tree_sitter_graph::ExecutionConfig;
use tree_sitter_graph::Identifier;
use tree_sitter_graph::NoCancellation;
use tree_sitter_graph::Variables;

use crate::engine;
use crate::engine::CheckMeta;
use crate::engine::Report;
use crate::engine::ShardCtx;
use crate::engine::Tier;
use crate::engine::Violation;
use crate::gen;
use crate::pysrc;
use crate::rng;
use crate::rng::Rng;
use crate::simrun;

pub const CLI: &str = "/verif/target-cli/debug/tree-sitter-graph";
pub const SHIM: &str = "/verif/work/ioshim.so";
pub const TS_DIR: &str = "/verif/work/tsdir";
pub const TS_LIBDIR: &str = "/verif/work/tslib";

pub fn meta() -> CheckMeta {
    CheckMeta {
        prop: "C19",
        level: "exploration",
        rule: "A run is (DSL file, Python source, option set, fault plan): accepted, rejected and run-time-failing DSL files; sources \
with and without syntax errors and with non-ASCII text; every subset of --lazy, --json, --output F (with --json), --quiet, \
--allow-parse-errors and 0-3 --global k=v (values with '=', spaces, non-ASCII); F absent or pre-existing. The real binary runs \
in a sandbox directory under an LD_PRELOAD shim; the harness computes the expected exit status, stdout, stderr class and \
output file by calling the library in-process on the same bytes. Configurations: control (no faults), benign faults (short and \
interrupted reads/writes, seeded hash keys: same strict oracle), fatal input faults (missing, unreadable, non-UTF-8 input: \
must fail with a diagnostic and no graph), fatal sink faults (failing stdout / output file: tallied, no verdict). Non-trivial = \
the library reaches execution; distinct = hash of (file, source, options, fault plan).",
        distinct_key: "cases",
        assumptions: vec![
            "the property does not say what must happen when the graph cannot be delivered: sink faults get no verdict",
            "--output is only generated together with --json (the tool declares that requirement itself); --global keys are unique and contain '='",
            "syntax-node ids in JSON are heap addresses: compared after dropping the id; set members re-sorted; JSON objects compared as maps",
            "stderr is only classified (empty / non-empty); its wording is not part of the property",
        ],
        real: vec![
            "the tree-sitter-graph binary built from /repo with --features cli (clap, anyhow, tree-sitter-loader, tree-sitter-config)",
            "the kernel's file system on a per-run sandbox directory; real process spawn, pipes and exit status",
            "the library in-process as the reference",
        ],
        stubbed: vec![
            "read/write/open/open64/openat/getrandom of the child (LD_PRELOAD shim executing the fault plan)",
            "the child's environment (constructed, not inherited)",
        ],
        required_probes: vec![
            "probe.cli_ran",
            "probe.success_pretty",
            "probe.success_json_stdout",
            "probe.success_json_file",
            "probe.rejected_file",
            "probe.execution_error",
            "probe.source_parse_error_gate",
            "probe.allow_parse_errors_used",
            "probe.short_write_fired",
            "probe.eintr_fired",
            "probe.fatal_input",
            "probe.sink_fault_observed",
            "probe.quiet_pair",
        ],
        fault_kinds: vec!["io_short", "io_eintr", "hash_keys", "io_missing", "io_unreadable", "io_not_utf8", "io_sink_fail"],
    }
}

#[derive(Clone, Copy, Debug, PartialEq, Eq)]
pub enum Fault {
    None,
    Benign { seed: u64, short: bool, eintr: bool, hash: u64 },
    MissingTsg,
    MissingSource,
    UnreadableTsg,
    UnreadableSource,
    NotUtf8Tsg,
    NotUtf8Source,
    StdoutFail { n: u32, errno: i32 },
    OutFail { n: u32, errno: i32 },
    OutCreateFail,
}

impl Fault {
    fn name(&self) -> &'static str {
        match self {
            Fault::None => "none",
            Fault::Benign { .. } => "benign",
            Fault::MissingTsg => "missing-tsg",
            Fault::MissingSource => "missing-source",
            Fault::UnreadableTsg => "unreadable-tsg",
            Fault::UnreadableSource => "unreadable-source",
            Fault::NotUtf8Tsg => "not-utf8-tsg",
            Fault::NotUtf8Source => "not-utf8-source",
            Fault::StdoutFail { .. } => "stdout-fail",
            Fault::OutFail { .. } => "out-fail",
            Fault::OutCreateFail => "out-create-fail",
        }
    }
    fn to_json(&self) -> J {
        match self {
            Fault::Benign { seed, short, eintr, hash } => json!({"kind": "benign", "seed": seed, "short": short, "eintr": eintr, "hash": hash}),
            Fault::StdoutFail { n, errno } => json!({"kind": "stdout-fail", "n": n, "errno": errno}),
            Fault::OutFail { n, errno } => json!({"kind": "out-fail", "n": n, "errno": errno}),
            other => json!({"kind": other.name()}),
        }
    }
    fn from_json(j: &J) -> Fault {
        let n = j["n"].as_u64().unwrap_or(1) as u32;
        let errno = j["errno"].as_i64().unwrap_or(5) as i32;
        match j["kind"].as_str().unwrap_or("none") {
            "benign" => Fault::Benign {
                seed: j["seed"].as_u64().unwrap_or(1),
                short: j["short"].as_bool().unwrap_or(false),
                eintr: j["eintr"].as_bool().unwrap_or(false),
                hash: j["hash"].as_u64().unwrap_or(1),
            },
            "missing-tsg" => Fault::MissingTsg,
            "missing-source" => Fault::MissingSource,
            "unreadable-tsg" => Fault::UnreadableTsg,
            "unreadable-source" => Fault::UnreadableSource,
            "not-utf8-tsg" => Fault::NotUtf8Tsg,
            "not-utf8-source" => Fault::NotUtf8Source,
            "stdout-fail" => Fault::StdoutFail { n, errno },
            "out-fail" => Fault::OutFail { n, errno },
            "out-create-fail" => Fault::OutCreateFail,
            _ => Fault::None,
        }
    }
    fn is_sink(&self) -> bool {
        matches!(self, Fault::StdoutFail { .. } | Fault::OutFail { .. } | Fault::OutCreateFail)
    }
    fn is_fatal_input(&self) -> bool {
        matches!(
            self,
            Fault::MissingTsg | Fault::MissingSource | Fault::UnreadableTsg | Fault::UnreadableSource | Fault::NotUtf8Tsg | Fault::NotUtf8Source
        )
    }
}

#[derive(Clone, Debug)]
pub struct Case {
    pub tsg: String,
    pub source: String,
    pub lazy: bool,
    pub json: bool,
    pub output: bool,
    pub output_preexisting: Option<String>,
    pub quiet: bool,
    pub allow_parse_errors: bool,
    pub globals: Vec<(String, String)>,
    pub fault: Fault,
    pub kind: String,
    /// selects among equivalent spellings of the options (-z/--lazy, -q/--quiet, -o/--output,
    /// --output=F, --global=k=v) and their order relative to the positionals
    pub spelling: u64,
    /// how the three files are named: 0 plain, 1 blanks and non-ASCII letters in the names,
    /// 2 inside a sub-directory, 3 absolute paths, 4 the output file is called `-`
    pub naming: u8,
}

impl Case {
    /// (DSL file, source file, output file) as given on the command line
    fn names(&self, dir: &Path) -> (String, String, String) {
        match self.naming {
            1 => ("my prög.tsg".into(), "sörce file.py".into(), "out püt.json".into()),
            2 => ("sub dir/prog.tsg".into(), "sub dir/src.py".into(), "sub dir/out.json".into()),
            3 => (
                dir.join("prog.tsg").to_string_lossy().to_string(),
                dir.join("src.py").to_string_lossy().to_string(),
                dir.join("out.json").to_string_lossy().to_string(),
            ),
            // an output file whose name is a single hyphen is still a file
            4 => ("prog.tsg".into(), "src.py".into(), "-".into()),
            _ => ("prog.tsg".into(), "src.py".into(), "out.json".into()),
        }
    }

    fn to_json(&self) -> J {
        json!({
            "tsg": self.tsg, "source": self.source, "lazy": self.lazy, "json": self.json, "output": self.output,
            "output_preexisting": self.output_preexisting, "quiet": self.quiet, "allow_parse_errors": self.allow_parse_errors,
            "globals": self.globals.iter().map(|(k, v)| json!([k, v])).collect::<Vec<_>>(),
            "fault": self.fault.to_json(), "kind": self.kind, "argv": self.argv(Path::new("<sandbox>")), "spelling": self.spelling, "naming": self.naming,
        })
    }
    fn from_json(j: &J) -> Case {
        Case {
            tsg: j["tsg"].as_str().unwrap_or("").into(),
            source: j["source"].as_str().unwrap_or("").into(),
            lazy: j["lazy"].as_bool().unwrap_or(false),
            json: j["json"].as_bool().unwrap_or(false),
            output: j["output"].as_bool().unwrap_or(false),
            output_preexisting: j["output_preexisting"].as_str().map(|s| s.to_string()),
            quiet: j["quiet"].as_bool().unwrap_or(false),
            allow_parse_errors: j["allow_parse_errors"].as_bool().unwrap_or(false),
            globals: j["globals"]
                .as_array()
                .map(|a| a.iter().map(|p| (p[0].as_str().unwrap_or("").to_string(), p[1].as_str().unwrap_or("").to_string())).collect())
                .unwrap_or_default(),
            fault: Fault::from_json(&j["fault"]),
            kind: j["kind"].as_str().unwrap_or("").into(),
            spelling: j["spelling"].as_u64().unwrap_or(0),
            naming: j["naming"].as_u64().unwrap_or(0) as u8,
        }
    }
    fn argv(&self, dir: &Path) -> Vec<String> {
        let (n_tsg, n_src, n_out) = self.names(dir);
        let mut r = Rng::new(self.spelling);
        // option groups (an option and its value stay together)
        let mut groups: Vec<Vec<String>> = Vec::new();
        if self.lazy {
            groups.push(vec![if self.spelling != 0 && r.chance(1, 2) { "-z".into() } else { "--lazy".into() }]);
        }
        if self.json {
            groups.push(vec!["--json".into()]);
        }
        if self.output {
            groups.push(match if self.spelling == 0 { 0 } else { r.below(3) } {
                0 => vec!["--output".into(), n_out.clone()],
                1 => vec!["-o".into(), n_out.clone()],
                _ => vec![format!("--output={}", n_out)],
            });
        }
        if self.quiet {
            groups.push(vec![if self.spelling != 0 && r.chance(1, 2) { "-q".into() } else { "--quiet".into() }]);
        }
        if self.allow_parse_errors {
            groups.push(vec!["--allow-parse-errors".into()]);
        }
        for (k, v) in &self.globals {
            if self.spelling != 0 && r.chance(1, 3) {
                groups.push(vec![format!("--global={}={}", k, v)]);
            } else {
                groups.push(vec!["--global".into(), format!("{}={}", k, v)]);
            }
        }
        if self.spelling != 0 {
            r.shuffle(&mut groups);
        }
        // the two positionals keep their relative order; options go before, between, after
        let mut a: Vec<String> = Vec::new();
        let cut1 = if self.spelling == 0 { groups.len().min(1) } else { r.below(groups.len() + 1) };
        let cut2 = if self.spelling == 0 { groups.len().min(2).max(cut1) } else { cut1 + r.below(groups.len() - cut1 + 1) };
        for g in &groups[..cut1] {
            a.extend(g.iter().cloned());
        }
        a.push(n_tsg);
        for g in &groups[cut1..cut2] {
            a.extend(g.iter().cloned());
        }
        a.push(n_src);
        for g in &groups[cut2..] {
            a.extend(g.iter().cloned());
        }
        a
    }
}

/// What the library says should happen.
#[derive(Clone, Debug, PartialEq)]
pub enum Expect {
    Fail(&'static str),
    Pretty(String),
    JsonStdout(J),
    JsonFile(J),
    QuietNothing,
}

fn normalise_json(v: &J) -> J {
    match v {
        J::Array(a) => J::Array(a.iter().map(normalise_json).collect()),
        J::Object(o) => {
            let ty = o.get("type").and_then(|t| t.as_str());
            if ty == Some("syntaxNode") {
                return json!({"type": "syntaxNode"});
            }
            let mut m = serde_json::Map::new();
            for (k, x) in o {
                m.insert(k.clone(), normalise_json(x));
            }
            if ty == Some("set") {
                if let Some(J::Array(vals)) = m.get_mut("values") {
                    vals.sort_by_key(|x| x.to_string());
                }
            }
            J::Object(m)
        }
        other => other.clone(),
    }
}

pub fn expectation(c: &Case) -> Expect {
    let file = match tree_sitter_graph::ast::File::from_str(simrun::language(), &c.tsg) {
        Ok(f) => f,
        Err(_) => return Expect::Fail("rejected-file"),
    };
    let tree = simrun::parse_python(&c.source);
    if !c.allow_parse_errors && tree.root_node().has_error() {
        return Expect::Fail("source-parse-error");
    }
    let functions = Functions::stdlib();
    let mut vars = Variables::new();
    for (k, v) in &c.globals {
        if vars.add(Identifier::from(k.as_str()), Value::String(v.clone())).is_err() {
            return Expect::Fail("duplicate-global");
        }
    }
    let config = ExecutionConfig::new(&functions, &vars).lazy(c.lazy);
    let r = std::panic::catch_unwind(std::panic::AssertUnwindSafe(|| file.execute(&tree, &c.source, &config, &NoCancellation)));
    let graph = match r {
        Err(_) => return Expect::Fail("library-panic"),
        Ok(Err(_)) => return Expect::Fail("execution-error"),
        Ok(Ok(g)) => g,
    };
    if c.json {
        let v = normalise_json(&serde_json::to_value(&graph).expect("to_value"));
        if c.output {
            Expect::JsonFile(v)
        } else {
            Expect::JsonStdout(v)
        }
    } else if c.quiet {
        Expect::QuietNothing
    } else {
        Expect::Pretty(format!("{}", graph.pretty_print()))
    }
}

#[derive(Debug, Default, Clone)]
pub struct Observed {
    pub status: Option<i32>,
    pub stdout: Vec<u8>,
    pub stderr: Vec<u8>,
    pub out_file: Option<Vec<u8>>,
    pub stats: std::collections::BTreeMap<String, u64>,
}

fn sandbox(tag: &str) -> PathBuf {
    let p = Path::new(engine::VERIF).join("work").join("cli").join(tag);
    let _ = std::fs::remove_dir_all(&p);
    std::fs::create_dir_all(&p).expect("create sandbox");
    p
}

pub fn run_cli(c: &Case, tag: &str) -> Result<Observed, String> {
    let dir = sandbox(tag);
    let tsg_bytes: Vec<u8> = if c.fault == Fault::NotUtf8Tsg {
        let mut b = c.tsg.clone().into_bytes();
        b.extend([0xff, 0xfe, 0x80]);
        b
    } else {
        c.tsg.clone().into_bytes()
    };
    let src_bytes: Vec<u8> = if c.fault == Fault::NotUtf8Source {
        let mut b = c.source.clone().into_bytes();
        b.extend([b'x', b' ', b'=', b' ', b'"', 0xc3, 0x28, b'"', b'\n']);
        b
    } else {
        c.source.clone().into_bytes()
    };
    let (n_tsg, n_src, n_out) = c.names(&dir);
    let (p_tsg, p_src, p_out) = (dir.join(&n_tsg), dir.join(&n_src), dir.join(&n_out));
    if let Some(parent) = p_tsg.parent() {
        std::fs::create_dir_all(parent).map_err(|e| e.to_string())?;
    }
    if c.fault != Fault::MissingTsg {
        std::fs::write(&p_tsg, &tsg_bytes).map_err(|e| e.to_string())?;
    }
    if c.fault != Fault::MissingSource {
        std::fs::write(&p_src, &src_bytes).map_err(|e| e.to_string())?;
    }
    if let Some(pre) = &c.output_preexisting {
        std::fs::write(&p_out, pre).map_err(|e| e.to_string())?;
    }
    // the shim recognises the files by the last component of their names
    let last = |s: &str| s.rsplit('/').next().unwrap_or(s).to_string();
    let (l_tsg, l_src, l_out) = (last(&n_tsg), last(&n_src), last(&n_out));
    let mut cmd = Command::new(CLI);
    cmd.args(c.argv(&dir))
        .current_dir(&dir)
        .env_clear()
        .env("PATH", "/usr/bin:/bin")
        .env("HOME", &dir)
        .env("TREE_SITTER_DIR", TS_DIR)
        .env("TREE_SITTER_LIBDIR", TS_LIBDIR)
        .env("NO_COLOR", "1")
        .env("LD_PRELOAD", SHIM)
        .env("IOSHIM_STATS", dir.join("shim.stats"))
        .env("IOSHIM_OUT_SUFFIX", &l_out)
        .stdin(Stdio::null())
        .stdout(Stdio::piped())
        .stderr(Stdio::piped());
    match &c.fault {
        Fault::Benign { seed, short, eintr, hash } => {
            cmd.env("IOSHIM_SEED", seed.to_string());
            if *short {
                cmd.env("IOSHIM_SHORT", "1");
            }
            if *eintr {
                cmd.env("IOSHIM_EINTR", "1");
            }
            cmd.env("IOSHIM_HASH", hash.to_string());
        }
        Fault::UnreadableTsg => {
            cmd.env("IOSHIM_OPEN_EACCES", &l_tsg);
        }
        Fault::UnreadableSource => {
            cmd.env("IOSHIM_OPEN_EACCES", &l_src);
        }
        Fault::StdoutFail { n, errno } => {
            cmd.env("IOSHIM_WFAIL", format!("stdout:{}:{}", n, errno));
        }
        Fault::OutFail { n, errno } => {
            cmd.env("IOSHIM_WFAIL", format!("out:{}:{}", n, errno));
        }
        Fault::OutCreateFail => {
            cmd.env("IOSHIM_CREATE_FAIL", &l_out);
        }
        _ => {}
    }
    let out = cmd.output().map_err(|e| format!("cannot spawn CLI: {}", e))?;
    let mut o = Observed {
        status: out.status.code(),
        stdout: out.stdout,
        stderr: out.stderr,
        out_file: std::fs::read(&p_out).ok(),
        stats: Default::default(),
    };
    if let Ok(s) = std::fs::read_to_string(dir.join("shim.stats")) {
        for l in s.lines() {
            if let Some((k, v)) = l.split_once('=') {
                o.stats.insert(k.to_string(), v.parse().unwrap_or(0));
            }
        }
    }
    let _ = std::fs::remove_dir_all(&dir);
    Ok(o)
}

pub struct Found {
    pub class: &'static str,
    pub detail: String,
}

fn lossy(b: &[u8]) -> String {
    String::from_utf8_lossy(b).chars().take(400).collect()
}

pub fn judge(c: &Case, exp: &Expect, o: &Observed) -> Option<Found> {
    if c.fault.is_sink() {
        return None; // no verdict
    }
    let status = match o.status {
        Some(s) => s,
        None => return Some(Found { class: "killed-by-signal", detail: format!("the tool was killed by a signal; stderr: {}", lossy(&o.stderr)) }),
    };
    let pre = c.output_preexisting.as_ref().map(|s| s.as_bytes().to_vec());
    let expect_fail = |why: &str| -> Option<Found> {
        if status == 0 {
            return Some(Found { class: "exit-zero-on-failure", detail: format!("{}: the tool exited with status 0; stdout: {:?}", why, lossy(&o.stdout)) });
        }
        if !o.stdout.is_empty() {
            return Some(Found { class: "graph-on-failure", detail: format!("{}: the tool failed (status {}) but wrote to stdout: {:?}", why, status, lossy(&o.stdout)) });
        }
        if o.stderr.is_empty() {
            return Some(Found { class: "no-diagnostic", detail: format!("{}: the tool failed (status {}) without any diagnostic", why, status) });
        }
        if o.out_file != pre {
            return Some(Found { class: "output-file-on-failure", detail: format!("{}: the tool failed but the --output file was created or changed", why) });
        }
        None
    };
    if c.fault.is_fatal_input() {
        return expect_fail(c.fault.name());
    }
    match exp {
        Expect::Fail(why) => expect_fail(why),
        ok => {
            if status != 0 {
                return Some(Found {
                    class: "nonzero-on-success",
                    detail: format!("the library loads and executes successfully but the tool exited with status {}; stderr: {:?}", status, lossy(&o.stderr)),
                });
            }
            match ok {
                Expect::Pretty(text) => {
                    if o.stdout != text.as_bytes() {
                        return Some(Found { class: "stdout-differs", detail: format!("pretty-printed graph differs: tool wrote {:?}, library prints {:?}", lossy(&o.stdout), text.chars().take(400).collect::<String>()) });
                    }
                }
                Expect::QuietNothing => {
                    if !o.stdout.is_empty() {
                        return Some(Found { class: "quiet-not-quiet", detail: format!("--quiet given, yet stdout holds {:?}", lossy(&o.stdout)) });
                    }
                }
                Expect::JsonStdout(v) => match serde_json::from_slice::<J>(&o.stdout) {
                    Ok(got) => {
                        if normalise_json(&got) != *v {
                            return Some(Found { class: "json-differs", detail: "JSON on stdout is not the library's JSON value".into() });
                        }
                    }
                    Err(e) => {
                        return Some(Found { class: "json-invalid", detail: format!("stdout is not valid JSON ({}): {:?}", e, lossy(&o.stdout)) });
                    }
                },
                Expect::JsonFile(v) => {
                    match &o.out_file {
                        None => return Some(Found { class: "output-file-missing", detail: "--json --output given and execution succeeded, but the file does not exist".into() }),
                        Some(b) => match serde_json::from_slice::<J>(b) {
                            Ok(got) => {
                                if normalise_json(&got) != *v {
                                    return Some(Found { class: "json-differs", detail: "JSON in the --output file is not the library's JSON value".into() });
                                }
                            }
                            Err(e) => return Some(Found { class: "json-invalid", detail: format!("the --output file is not valid JSON ({})", e) }),
                        },
                    }
                    if !o.stdout.is_empty() {
                        return Some(Found {
                            class: "json-also-on-stdout",
                            detail: format!("--output names the destination of the JSON, yet {} bytes were also written to stdout: {:?}", o.stdout.len(), lossy(&o.stdout).chars().take(80).collect::<String>()),
                        });
                    }
                }
                Expect::Fail(_) => unreachable!(),
            }
            if !matches!(ok, Expect::JsonFile(_)) && o.out_file != pre {
                return Some(Found { class: "unexpected-output-file", detail: "an --output file appeared or changed without --json --output".into() });
            }
            None
        }
    }
}

const GLOBAL_VALUES: &[&str] = &[" lead", "trail ", " -> ", "  ", "a/b/c.py", "x=y", "two words", "héé", "", "=", "plain", "x1y22z333", "a,b", "a,k=v", "--json", "-q", "\"quoted\"", "tab\there"];

pub fn make_case(ctx: &ShardCtx, i: u64) -> Case {
    let seed = ctx.run_seed(i);
    let mut r = Rng::sub(seed, "plan");
    let kind_roll = r.below(10);
    let (tsg, needed, kind): (String, Vec<(String, &'static str)>, &str) = match kind_roll {
        2 if r.chance(1, 2) => {
            // echoes exactly what the tool hands to the library: the global's text and the
            // extent and text of the whole source; the global's name is any DSL identifier
            let name = *r.pick(&["g_path", "g_path", "gr\u{f6}\u{df}e", "\u{540d}\u{524d}", "g-path_2"]);
            (
                format!("global {}\n\n(module) @m\n{{\n  node n\n  attr (n) g = {}, text = (source-text @m), er = (end-row @m), ec = (end-column @m)\n}}\n", name, name),
                vec![(name.to_string(), "str")],
                "echo",
            )
        }
        4 if r.chance(1, 8) => (
            // succeeds lazily, fails strictly (a scoped variable read before the stanza that
            // defines it): the selected mode must be the one that runs, whatever the input size
            "(module) @m\n{\n  node n\n  attr (n) v = @m.v\n}\n\n(module) @m\n{\n  let @m.v = 1\n}\n".to_string(),
            vec![],
            "mode-sensitive",
        ),
        3 if r.chance(1, 3) => (
            // a file without any stanza: execution still has to check the declared globals
            (*r.pick(&["global g_need\n", "global g_need\nglobal g_list*\n; nothing else\n", "global g_need\nattribute sh = v => a = v\n"])).to_string(),
            vec![("g_need".to_string(), "str"), ("g_list".to_string(), "str")],
            "no-stanza",
        ),
        0 => ("(identifier) @id (module) @m\n{\n  node n\n}\n".to_string(), vec![], "rejected-syntax"),
        1 => ("(module (_) @a (_) @b) @m\n{\n  node n\n}\n".to_string(), vec![], "rejected-check"),
        _ => {
            let cfg = gen::GenCfg {
                fault_permille: if kind_roll < 5 { 70 } else { 0 },
                allow_print: r.chance(1, 5),
                max_stanzas: 4,
                ..Default::default()
            };
            let g = gen::gen_program(&mut Rng::sub(seed, "prog"), &cfg);
            (g.prog.render(), g.needed_globals, "generated")
        }
    };
    let scfg = pysrc::SrcCfg { max_stmts: 8, syntax_errors: if r.chance(1, 4) { 1 } else { 0 }, ..Default::default() };
    let mut source = pysrc::gen_source(&mut Rng::sub(seed, "src"), &scfg);
    if r.chance(1, 40) {
        // exactly 256 or 512 syntax errors (exit statuses are taken modulo 256)
        source = "x = = 1\n".repeat(*r.pick(&[256usize, 512]));
    }
    if kind == "mode-sensitive" {
        // small, large and very large sources
        let bytes = *r.pick(&[60usize, 70_000, 300_000, 1_200_000]);
        source = "x = 1\n".repeat(bytes / 6);
    }
    let mut tsg = tsg;
    if r.chance(1, 25) {
        // a file that starts with a byte-order mark: whatever the library makes of it
        if r.chance(1, 2) {
            tsg = format!("\u{feff}{}", tsg);
        } else {
            source = format!("\u{feff}{}", source);
        }
    }
    if r.chance(1, 4) {
        // a source file whose last line is not newline-terminated
        while source.ends_with('\n') {
            source.pop();
        }
    }
    let json = r.chance(1, 2);
    let output = json && r.chance(1, 2);
    let mut globals: Vec<(String, String)> = Vec::new();
    for (name, _) in &needed {
        if !tsg.contains(&format!("global {}", name)) {
            continue;
        }
        // declared globals are usually supplied; sometimes one is left out
        if r.chance(if kind == "no-stanza" { 5 } else { 9 }, 10) {
            globals.push((name.clone(), r.pick(GLOBAL_VALUES).to_string()));
        }
    }
    if r.chance(1, 4) {
        // a global the file does not declare: the library ignores it, whatever its name
        let name = *r.pick(&["extra_unused", "extra_unused", "build.id", "gr\u{f6}\u{df}e_extra", "a-b", "x y", "1st", "\u{3c0}"]);
        globals.push((name.into(), r.pick(GLOBAL_VALUES).to_string()));
    }
    let fault = match r.below(20) {
        0..=7 => Fault::None,
        8..=13 => Fault::Benign { seed: r.next() >> 1, short: r.chance(2, 3), eintr: r.chance(2, 3), hash: r.next() >> 1 },
        14 => *r.pick(&[Fault::MissingTsg, Fault::MissingSource]),
        15 => *r.pick(&[Fault::UnreadableTsg, Fault::UnreadableSource]),
        16 => *r.pick(&[Fault::NotUtf8Tsg, Fault::NotUtf8Source]),
        17 => Fault::StdoutFail { n: 1 + r.below(3) as u32, errno: *r.pick(&[28, 5, 32]) },
        18 => {
            if output {
                Fault::OutFail { n: 1 + r.below(2) as u32, errno: *r.pick(&[28, 5]) }
            } else {
                Fault::StdoutFail { n: 1, errno: 28 }
            }
        }
        _ => {
            if output {
                Fault::OutCreateFail
            } else {
                Fault::None
            }
        }
    };
    Case {
        tsg,
        source,
        lazy: r.chance(1, 2),
        json,
        output,
        output_preexisting: if output && r.chance(1, 3) { Some("previous content\n".into()) } else { None },
        quiet: r.chance(1, 3),
        allow_parse_errors: r.chance(1, 3),
        globals,
        fault,
        kind: kind.to_string(),
        spelling: if r.chance(1, 4) { 0 } else { r.next() | 1 },
        naming: *r.pick(&[0u8, 0, 0, 1, 2, 3, 4]),
    }
}

fn signature(c: &Case, f: &Found) -> String {
    format!(
        "{} json={} output={} fault={}",
        f.class,
        c.json,
        c.output,
        if matches!(c.fault, Fault::None) { "none" } else if matches!(c.fault, Fault::Benign { .. }) { "benign" } else { c.fault.name() }
    )
}

fn evaluate(c: &Case, tag: &str) -> Result<(Expect, Observed, Option<Found>), String> {
    let exp = expectation(c);
    let o = run_cli(c, tag)?;
    let f = judge(c, &exp, &o);
    Ok((exp, o, f))
}

fn minimise(c: &Case, f: Found, tag: &str) -> (Case, Found) {
    let mut best = c.clone();
    let mut bestf = f;
    let mut budget = 60;
    let mut try_case = |cand: Case, best: &mut Case, bestf: &mut Found| -> bool {
        if let Ok((_, _, Some(f2))) = evaluate(&cand, tag) {
            if f2.class == bestf.class {
                *best = cand;
                *bestf = f2;
                return true;
            }
        }
        false
    };
    // simpler options and no fault first
    for step in 0..8 {
        if budget == 0 {
            break;
        }
        budget -= 1;
        let mut cand = best.clone();
        match step {
            6 => cand.naming = 0,
            7 => cand.spelling = 0,
            0 => cand.fault = Fault::None,
            1 => cand.quiet = false,
            2 => cand.allow_parse_errors = false,
            3 => cand.lazy = false,
            4 => cand.output_preexisting = None,
            _ => {
                let tsg = cand.tsg.clone();
                cand.globals.retain(|g| tsg.contains(&format!("global {}", g.0)))
            }
        }
        try_case(cand, &mut best, &mut bestf);
    }
    // smallest program / source that still shows it
    for tsg in ["(module) @m\n{\n  node n\n  attr (n) k = (source-text @m)\n}\n", "(module) @_m\n{\n  node n\n}\n"] {
        if budget == 0 {
            break;
        }
        budget -= 1;
        let mut cand = best.clone();
        cand.tsg = tsg.to_string();
        cand.globals.clear();
        if try_case(cand, &mut best, &mut bestf) {
            break;
        }
    }
    for src in ["pass\n"] {
        if budget == 0 {
            break;
        }
        budget -= 1;
        let mut cand = best.clone();
        cand.source = src.to_string();
        try_case(cand, &mut best, &mut bestf);
    }
    (best, bestf)
}

pub fn run_shard(ctx: &ShardCtx, rep: &mut Report) {
    let total: u64 = match ctx.tier {
        Tier::Quick => ctx.scaled(5000) as u64,
        Tier::Thorough => ctx.scaled(320_000) as u64,
    };
    if !Path::new(CLI).exists() || !Path::new(SHIM).exists() {
        rep.harness_error(format!("CLI binary or shim missing ({} / {}): run ./check setup", CLI, SHIM));
        return;
    }
    // `print` statements of generated programs write to stderr when the reference runs the
    // library in-process; keep that out of the check's own output
    unsafe {
        let devnull = libc::open(b"/dev/null\0".as_ptr() as *const libc::c_char, libc::O_WRONLY);
        if devnull >= 0 {
            libc::dup2(devnull, 2);
            libc::close(devnull);
        }
    }
    let tag = format!("s{}", ctx.shard);
    let mut minimised: std::collections::BTreeSet<String> = Default::default();
    for i in 0..total {
        if ctx.past_end(i) {
            break;
        }
        if !ctx.mine(i) {
            continue;
        }
        rep.current_run = i;
        let case = make_case(ctx, i);
        let (exp, o, found) = match evaluate(&case, &tag) {
            Ok(x) => x,
            Err(m) => {
                rep.harness_error(format!("C19 run {}: {}", i, m));
                continue;
            }
        };
        rep.count("runs");
        rep.count("probe.cli_ran");
        rep.evaluations += 1;
        rep.steps += o.stats.get("read").copied().unwrap_or(0) + o.stats.get("write").copied().unwrap_or(0);
        rep.count(&format!("config.{}", if case.fault == Fault::None { "control" } else if matches!(case.fault, Fault::Benign { .. }) { "benign" } else if case.fault.is_sink() { "sink" } else { "fatal-input" }));
        match &case.fault {
            Fault::None => {}
            Fault::Benign { short, eintr, .. } => {
                let ws = o.stats.get("write_short").copied().unwrap_or(0);
                let rs = o.stats.get("read_short").copied().unwrap_or(0);
                let ei = o.stats.get("read_eintr").copied().unwrap_or(0) + o.stats.get("write_eintr").copied().unwrap_or(0);
                if *short {
                    rep.count("fault.io_short.configured");
                    rep.add("fault.io_short.fired", ws + rs);
                    rep.add("probe.short_write_fired", ws);
                }
                if *eintr {
                    rep.count("fault.io_eintr.configured");
                    rep.add("fault.io_eintr.fired", ei);
                    rep.add("probe.eintr_fired", ei);
                }
                rep.count("fault.hash_keys.configured");
                rep.add("fault.hash_keys.fired", o.stats.get("getrandom").copied().unwrap_or(0).min(1));
            }
            Fault::MissingTsg | Fault::MissingSource => {
                rep.count("fault.io_missing.configured");
                rep.count("fault.io_missing.fired");
                rep.count("probe.fatal_input");
            }
            Fault::UnreadableTsg | Fault::UnreadableSource => {
                rep.count("fault.io_unreadable.configured");
                rep.add("fault.io_unreadable.fired", o.stats.get("open_eacces").copied().unwrap_or(0));
                rep.count("probe.fatal_input");
            }
            Fault::NotUtf8Tsg | Fault::NotUtf8Source => {
                rep.count("fault.io_not_utf8.configured");
                rep.count("fault.io_not_utf8.fired");
                rep.count("probe.fatal_input");
            }
            Fault::StdoutFail { .. } | Fault::OutFail { .. } | Fault::OutCreateFail => {
                rep.count("fault.io_sink_fail.configured");
                let fired = o.stats.get("write_fail").copied().unwrap_or(0) + o.stats.get("create_fail").copied().unwrap_or(0);
                rep.add("fault.io_sink_fail.fired", fired);
                if fired > 0 {
                    rep.count("probe.sink_fault_observed");
                    rep.count(&format!("sink_outcome.status_{}", o.status.map(|s| s.to_string()).unwrap_or("signal".into())));
                }
            }
        }
        if !case.fault.is_sink() && !case.fault.is_fatal_input() {
            match &exp {
                Expect::Pretty(_) => rep.count("probe.success_pretty"),
                Expect::JsonStdout(_) => rep.count("probe.success_json_stdout"),
                Expect::JsonFile(_) => rep.count("probe.success_json_file"),
                Expect::QuietNothing => rep.count("probe.quiet_pair"),
                Expect::Fail("rejected-file") => rep.count("probe.rejected_file"),
                Expect::Fail("execution-error") => rep.count("probe.execution_error"),
                Expect::Fail("source-parse-error") => rep.count("probe.source_parse_error_gate"),
                Expect::Fail(w) => rep.count(&format!("expect_fail.{}", w)),
            }
            if case.allow_parse_errors && simrun::parse_python(&case.source).root_node().has_error() && !matches!(exp, Expect::Fail("rejected-file")) {
                rep.count("probe.allow_parse_errors_used");
            }
        }
        // JSON carries syntax-node ids (heap addresses of the child) and attribute maps in the
        // child's hash order: the transcript uses the normalised value, never the raw bytes
        let stdout_norm: Vec<u8> = if case.json {
            match serde_json::from_slice::<J>(&o.stdout) {
                Ok(v) => normalise_json(&v).to_string().into_bytes(),
                Err(_) => (if o.stdout.is_empty() { "empty" } else { "non-json" }).to_string().into_bytes(),
            }
        } else {
            o.stdout.clone()
        };
        let th = rng::hash_bytes(rng::hash_bytes(o.status.unwrap_or(-1) as u64 + 7, &stdout_norm), if o.stderr.is_empty() { b"0" } else { b"1" });
        rep.run_hashes.push((i, th));
        if !matches!(exp, Expect::Fail("rejected-file")) {
            rep.distinct("cases", rng::hash_str(&case.to_json().to_string()));
        }
        rep.sample(3, || {
            json!({"argv": case.argv(Path::new("<sandbox>")), "tsg": case.tsg, "source": case.source, "fault": case.fault.to_json(),
                   "expected": match &exp { Expect::Fail(w) => format!("failure ({})", w), Expect::Pretty(_) => "pretty graph on stdout".into(), Expect::JsonStdout(_) => "JSON on stdout".into(), Expect::JsonFile(_) => "JSON in out.json, nothing on stdout".into(), Expect::QuietNothing => "nothing on stdout".into() },
                   "observed_status": o.status, "stdout_bytes": o.stdout.len(), "stderr_bytes": o.stderr.len(), "shim": o.stats})
        });
        if let Some(f) = found {
            rep.count("violating_cases");
            let sig = signature(&case, &f);
            if minimised.insert(sig) {
                let (c2, f2) = minimise(&case, f, &tag);
                rep.violation(Violation {
                    class: f2.class.to_string(),
                    signature: signature(&c2, &f2),
                    summary: format!("tree-sitter-graph {} : {}", c2.argv(Path::new("<sandbox>")).join(" "), f2.detail),
                    scenario: c2.to_json(),
                });
            }
        }
    }
}

pub fn replay(sc: &J) -> Result<Option<(String, String)>, String> {
    let c = Case::from_json(sc);
    let (_, _, f) = evaluate(&c, &format!("replay{}", std::process::id()))?;
    Ok(f.map(|f| (f.class.to_string(), f.detail)))
}
