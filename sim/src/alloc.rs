//! Seam S3: the address-space layout of syntax-tree memory.
//!
//! tree-sitter lets the embedding program supply malloc/calloc/realloc/free
//! (`tree_sitter::set_allocator`).  The simulator installs an arena allocator over regions
//! reserved at fixed virtual addresses and decides, per run, *where* each block lands.  All
//! policies are behaviour a real `malloc` may legally show; none corrupts or aliases live
//! memory.  Rust-side allocations stay on the system allocator.

use std::collections::BTreeMap;
use std::ffi::c_void;
use std::sync::Mutex;

use crate::rng::Rng;

#[derive(Clone, Copy, Debug, PartialEq, Eq)]
pub enum Policy {
    /// one arena, ascending addresses (control)
    Compact,
    /// one arena, descending addresses: address order is the reverse of allocation order
    Descending,
    /// seeded choice among 16 sub-arenas spread over 16 GiB
    Scatter,
    /// consecutive allocations are placed pairwise at equal offsets in two arenas exactly
    /// 4 GiB apart, so distinct live blocks share their low 32 address bits
    Split4G,
    /// compact + LIFO free lists: a later tree occupies the addresses of an earlier, freed one
    Reuse,
    /// compact + first fit over coalesced free extents: freed memory is handed out again in
    /// pieces of other sizes, so a later tree's blocks start at other offsets inside the
    /// memory of an earlier one (node ids recur with another meaning)
    Coalesce,
}

impl Policy {
    pub fn name(self) -> &'static str {
        match self {
            Policy::Compact => "compact",
            Policy::Descending => "descending",
            Policy::Scatter => "scatter",
            Policy::Split4G => "split-4G",
            Policy::Reuse => "reuse",
            Policy::Coalesce => "coalesce",
        }
    }
    pub fn parse(s: &str) -> Option<Policy> {
        Some(match s {
            "compact" => Policy::Compact,
            "descending" => Policy::Descending,
            "scatter" => Policy::Scatter,
            "split-4G" => Policy::Split4G,
            "reuse" => Policy::Reuse,
            "coalesce" => Policy::Coalesce,
            _ => return None,
        })
    }
    pub const ALL: [Policy; 6] = [
        Policy::Compact,
        Policy::Descending,
        Policy::Scatter,
        Policy::Split4G,
        Policy::Reuse,
        Policy::Coalesce,
    ];
}

const BASE_A: usize = 0x2000_0000_0000;
const BASE_B: usize = BASE_A + 0x1_0000_0000; // + 4 GiB
const ARENA: usize = 1 << 30; // 1 GiB each
const SCATTER_BASE: usize = BASE_A + 0x10_0000_0000; // + 64 GiB
const SCATTER_N: usize = 16;
const SCATTER_STRIDE: usize = 1 << 30;
const SCATTER_SIZE: usize = 1 << 27; // 128 MiB each
const HDR: usize = 16;
const MAGIC: u64 = 0x7473_675f_7369_6d21;

struct State {
    installed: bool,
    policy: Policy,
    rng: Rng,
    live: i64,
    allocs: u64,
    frees: u64,
    // bump offsets
    off_a: usize,
    off_b: usize,
    off_down: usize,
    off_scatter: [usize; SCATTER_N],
    // split-4G pairing
    pair_pending: Option<usize>, // size of the even block placed in A at off_a
    free_lists: BTreeMap<usize, Vec<usize>>,
    /// Coalesce: free extents (address, length), sorted by address, adjacent ones merged
    extents: Vec<(usize, usize)>,
    overflow: bool,
}

static STATE: Mutex<Option<State>> = Mutex::new(None);

fn reserve(addr: usize, len: usize) {
    unsafe {
        let p = libc::mmap(
            addr as *mut c_void,
            len,
            libc::PROT_READ | libc::PROT_WRITE,
            libc::MAP_PRIVATE | libc::MAP_ANONYMOUS | libc::MAP_NORESERVE | libc::MAP_FIXED_NOREPLACE,
            -1,
            0,
        );
        if p as usize != addr {
            eprintln!("HARNESS-ERROR cannot reserve arena at {:#x}", addr);
            std::process::exit(2);
        }
    }
}

fn round(n: usize) -> usize {
    (n + 15) & !15
}

/// Installs the allocator.  Must be called once, before the first tree-sitter call.
pub fn install() {
    let mut g = STATE.lock().unwrap();
    if g.is_some() {
        return;
    }
    reserve(BASE_A, ARENA);
    reserve(BASE_B, ARENA);
    for i in 0..SCATTER_N {
        reserve(SCATTER_BASE + i * SCATTER_STRIDE, SCATTER_SIZE);
    }
    *g = Some(State {
        installed: true,
        policy: Policy::Compact,
        rng: Rng::new(0),
        live: 0,
        allocs: 0,
        frees: 0,
        off_a: 0,
        off_b: 0,
        off_down: ARENA,
        off_scatter: [0; SCATTER_N],
        pair_pending: None,
        free_lists: BTreeMap::new(),
        extents: Vec::new(),
        overflow: false,
    });
    drop(g);
    unsafe {
        tree_sitter::set_allocator(Some(sim_malloc), Some(sim_calloc), Some(sim_realloc), Some(sim_free));
    }
}

pub fn installed() -> bool {
    STATE.lock().unwrap().as_ref().map(|s| s.installed).unwrap_or(false)
}

/// Starts a new run: all blocks of the previous run must have been freed.  Returns the
/// number of blocks that were still live (a leak probe; they are abandoned, never reused).
pub fn begin_run(policy: Policy, seed: u64) -> i64 {
    let mut g = STATE.lock().unwrap();
    let s = match g.as_mut() {
        Some(s) => s,
        None => return 0,
    };
    let leaked = s.live;
    if leaked == 0 {
        // recycle address space only when nothing is live
        unsafe {
            if s.off_a > 0 {
                libc::madvise(BASE_A as *mut c_void, s.off_a, libc::MADV_DONTNEED);
            }
            if s.off_b > 0 {
                libc::madvise(BASE_B as *mut c_void, s.off_b, libc::MADV_DONTNEED);
            }
            if s.off_down < ARENA {
                libc::madvise((BASE_A + s.off_down) as *mut c_void, ARENA - s.off_down, libc::MADV_DONTNEED);
            }
            for i in 0..SCATTER_N {
                if s.off_scatter[i] > 0 {
                    libc::madvise(
                        (SCATTER_BASE + i * SCATTER_STRIDE) as *mut c_void,
                        s.off_scatter[i],
                        libc::MADV_DONTNEED,
                    );
                }
            }
        }
        s.off_a = 0;
        s.off_b = 0;
        s.off_down = ARENA;
        s.off_scatter = [0; SCATTER_N];
        s.free_lists.clear();
        s.extents.clear();
    }
    s.live = 0;
    s.pair_pending = None;
    s.policy = policy;
    s.rng = Rng::new(seed);
    leaked
}

pub fn stats() -> (u64, u64, i64, bool) {
    let g = STATE.lock().unwrap();
    match g.as_ref() {
        Some(s) => (s.allocs, s.frees, s.live, s.overflow),
        None => (0, 0, 0, false),
    }
}

fn place(s: &mut State, size: usize) -> usize {
    let need = round(size + HDR);
    let addr = match s.policy {
        Policy::Compact => {
            let a = BASE_A + s.off_a;
            s.off_a += need;
            a
        }
        Policy::Reuse => {
            if let Some(list) = s.free_lists.get_mut(&need) {
                if let Some(a) = list.pop() {
                    return a;
                }
            }
            let a = BASE_A + s.off_a;
            s.off_a += need;
            a
        }
        Policy::Coalesce => {
            if let Some(pos) = s.extents.iter().position(|(_, len)| *len >= need) {
                let (a, len) = s.extents[pos];
                if len == need {
                    s.extents.remove(pos);
                } else {
                    s.extents[pos] = (a + need, len - need);
                }
                return a;
            }
            let a = BASE_A + s.off_a;
            s.off_a += need;
            a
        }
        Policy::Descending => {
            if s.off_down < need + s.off_a {
                s.overflow = true;
            }
            s.off_down -= need;
            BASE_A + s.off_down
        }
        Policy::Scatter => {
            let i = s.rng.below(SCATTER_N);
            let a = SCATTER_BASE + i * SCATTER_STRIDE + s.off_scatter[i];
            s.off_scatter[i] += need;
            if s.off_scatter[i] > SCATTER_SIZE {
                s.overflow = true;
            }
            a
        }
        Policy::Split4G => match s.pair_pending.take() {
            None => {
                // even block: arena A at the shared offset; the partner decides the advance
                s.pair_pending = Some(need);
                BASE_A + s.off_a
            }
            Some(prev) => {
                let a = BASE_B + s.off_a;
                s.off_a += prev.max(need);
                s.off_b = s.off_a;
                a
            }
        },
    };
    if s.off_a > ARENA - (1 << 20) {
        s.overflow = true;
    }
    addr
}

unsafe fn do_alloc(size: usize, zero: bool) -> *mut c_void {
    let mut g = STATE.lock().unwrap();
    let s = g.as_mut().unwrap();
    let base = place(s, size);
    if s.overflow {
        eprintln!("HARNESS-ERROR simulated arena exhausted");
        std::process::exit(2);
    }
    s.live += 1;
    s.allocs += 1;
    drop(g);
    let hdr = base as *mut u64;
    *hdr = size as u64;
    *hdr.add(1) = MAGIC;
    let user = (base + HDR) as *mut u8;
    if zero {
        std::ptr::write_bytes(user, 0, size);
    }
    user as *mut c_void
}

unsafe extern "C" fn sim_malloc(size: usize) -> *mut c_void {
    do_alloc(size.max(1), false)
}

unsafe extern "C" fn sim_calloc(n: usize, size: usize) -> *mut c_void {
    do_alloc((n * size).max(1), true)
}

unsafe extern "C" fn sim_realloc(p: *mut c_void, size: usize) -> *mut c_void {
    if p.is_null() {
        return do_alloc(size.max(1), false);
    }
    let hdr = (p as usize - HDR) as *mut u64;
    if *hdr.add(1) != MAGIC {
        eprintln!("HARNESS-ERROR realloc of a foreign pointer");
        std::process::exit(2);
    }
    let old = *hdr as usize;
    if round(size + HDR) <= round(old + HDR) {
        *hdr = size.max(1) as u64;
        return p;
    }
    let q = do_alloc(size, false);
    std::ptr::copy_nonoverlapping(p as *const u8, q as *mut u8, old.min(size));
    sim_free(p);
    q
}

unsafe extern "C" fn sim_free(p: *mut c_void) {
    if p.is_null() {
        return;
    }
    let base = p as usize - HDR;
    let hdr = base as *mut u64;
    if *hdr.add(1) != MAGIC {
        eprintln!("HARNESS-ERROR free of a foreign or already freed pointer");
        std::process::exit(2);
    }
    let size = *hdr as usize;
    *hdr.add(1) = 0;
    let mut g = STATE.lock().unwrap();
    let s = g.as_mut().unwrap();
    s.live -= 1;
    s.frees += 1;
    if s.policy == Policy::Reuse {
        // the block's capacity is what was originally carved out; shrinking reallocs keep it
        s.free_lists.entry(round(size + HDR)).or_default().push(base);
    }
    if s.policy == Policy::Coalesce {
        let len = round(size + HDR);
        let pos = s.extents.partition_point(|(a, _)| *a < base);
        s.extents.insert(pos, (base, len));
        // merge with the next and the previous extent
        if pos + 1 < s.extents.len() && s.extents[pos].0 + s.extents[pos].1 == s.extents[pos + 1].0 {
            s.extents[pos].1 += s.extents[pos + 1].1;
            s.extents.remove(pos + 1);
        }
        if pos > 0 && s.extents[pos - 1].0 + s.extents[pos - 1].1 == s.extents[pos].0 {
            s.extents[pos - 1].1 += s.extents[pos].1;
            s.extents.remove(pos);
        }
    }
}

pub fn all_node_ids(tree: &tree_sitter::Tree) -> Vec<usize> {
    let mut ids: Vec<usize> = Vec::new();
    let mut cursor = tree.walk();
    let mut done = false;
    while !done {
        ids.push(cursor.node().id());
        if cursor.goto_first_child() {
            continue;
        }
        loop {
            if cursor.goto_next_sibling() {
                break;
            }
            if !cursor.goto_parent() {
                done = true;
                break;
            }
        }
    }
    ids
}

/// Number of zero-width nodes (error recovery artefacts, empty blocks) in the tree.
pub fn all_nodes_zero_width(tree: &tree_sitter::Tree) -> usize {
    let mut count = 0;
    let mut cursor = tree.walk();
    let mut done = false;
    while !done {
        let n = cursor.node();
        if n.start_byte() == n.end_byte() {
            count += 1;
        }
        if cursor.goto_first_child() {
            continue;
        }
        loop {
            if cursor.goto_next_sibling() {
                break;
            }
            if !cursor.goto_parent() {
                done = true;
                break;
            }
        }
    }
    count
}

/// Counts pairs of distinct nodes in `tree` whose ids agree in the low 32 bits.
pub fn id_collisions(tree: &tree_sitter::Tree) -> (usize, usize) {
    let mut ids: Vec<usize> = Vec::new();
    let mut cursor = tree.walk();
    let mut done = false;
    while !done {
        ids.push(cursor.node().id());
        if cursor.goto_first_child() {
            continue;
        }
        loop {
            if cursor.goto_next_sibling() {
                break;
            }
            if !cursor.goto_parent() {
                done = true;
                break;
            }
        }
    }
    let n = ids.len();
    let mut low: BTreeMap<u32, usize> = BTreeMap::new();
    for id in &ids {
        *low.entry(*id as u32).or_default() += 1;
    }
    let full: std::collections::BTreeSet<usize> = ids.iter().cloned().collect();
    let _ = full;
    let collisions: usize = low.values().filter(|c| **c > 1).map(|c| c - 1).sum();
    (n, collisions)
}
