//! Canonical, environment-independent renderings of graphs, values, errors and ASTs.
//!
//! A syntax-node reference is rendered by what it denotes (kind, byte range, start point),
//! never by its numeric id, which is a heap address by design.  Attribute maps and sets are
//! sorted.  Node numbering is kept (C12 demands it); `iso_eq` compares up to renumbering.

use std::collections::BTreeMap;
use std::collections::BTreeSet;

use serde_json::json;
use tree_sitter_graph::graph::Attributes;
use tree_sitter_graph::graph::Graph;
use tree_sitter_graph::graph::Value;
use tree_sitter_graph::ExecutionError;

#[derive(Clone, PartialEq, Eq, PartialOrd, Ord, Debug, Hash)]
pub enum CVal {
    Null,
    Bool(bool),
    Int(u32),
    Str(String),
    List(Vec<CVal>),
    Set(BTreeSet<CVal>),
    /// `shown` is the reference's own Display (kind, row, col); the rest is what the graph
    /// resolves the reference to.
    Syn {
        shown: String,
        kind: String,
        start: usize,
        end: usize,
    },
    GNode(u32),
}

pub type CAttrs = BTreeMap<String, CVal>;

#[derive(Clone, PartialEq, Eq, Debug, Default)]
pub struct CNode {
    pub attrs: CAttrs,
    /// as yielded by `iter_edges`, then sorted by sink (stable): the order in which the library
    /// lists the edges of a node is not part of any property, a repeated sink is
    pub edges: Vec<(u32, CAttrs)>,
}

#[derive(Clone, PartialEq, Eq, Debug, Default)]
pub struct CGraph {
    pub nodes: Vec<CNode>,
}

pub fn cval(graph: &Graph, v: &Value) -> CVal {
    match v {
        Value::Null => CVal::Null,
        Value::Boolean(b) => CVal::Bool(*b),
        Value::Integer(i) => CVal::Int(*i),
        Value::String(s) => CVal::Str(s.clone()),
        Value::List(l) => CVal::List(l.iter().map(|x| cval(graph, x)).collect()),
        Value::Set(s) => CVal::Set(s.iter().map(|x| cval(graph, x)).collect()),
        Value::SyntaxNode(r) => {
            let n = &graph[*r];
            CVal::Syn {
                shown: format!("{}", r),
                kind: n.kind().to_string(),
                start: n.start_byte(),
                end: n.end_byte(),
            }
        }
        Value::GraphNode(g) => CVal::GNode(g.index() as u32),
    }
}

/// As `cgraph`, but every syntax-node value also carries the node's id, so that nodes of
/// different live trees with equal kind and range stay distinct (histories over several trees).
pub fn cgraph_ids(graph: &Graph) -> CGraph {
    fn tag(graph: &Graph, v: &Value) -> CVal {
        match v {
            Value::List(l) => CVal::List(l.iter().map(|x| tag(graph, x)).collect()),
            Value::Set(s) => CVal::Set(s.iter().map(|x| tag(graph, x)).collect()),
            Value::SyntaxNode(r) => {
                let n = &graph[*r];
                CVal::Syn {
                    shown: format!("{}#{:x}", r, n.id()),
                    kind: n.kind().to_string(),
                    start: n.start_byte(),
                    end: n.end_byte(),
                }
            }
            other => cval(graph, other),
        }
    }
    fn attrs(graph: &Graph, a: &Attributes) -> CAttrs {
        a.iter().map(|(k, v)| (k.as_str().to_string(), tag(graph, v))).collect()
    }
    let mut out = CGraph::default();
    for n in graph.iter_nodes() {
        let gn = &graph[n];
        let mut cn = CNode { attrs: attrs(graph, &gn.attributes), edges: Vec::new() };
        for (sink, e) in gn.iter_edges() {
            cn.edges.push((sink.index() as u32, attrs(graph, &e.attributes)));
        }
        cn.edges.sort_by_key(|e| e.0);
        out.nodes.push(cn);
    }
    out
}

/// The tagged rendering `cgraph_ids` gives a syntax node.
pub fn syn_with_id(n: &tree_sitter::Node) -> CVal {
    CVal::Syn {
        shown: format!(
            "[syntax node {} ({}, {})]#{:x}",
            n.kind(),
            n.start_position().row + 1,
            n.start_position().column + 1,
            n.id()
        ),
        kind: n.kind().to_string(),
        start: n.start_byte(),
        end: n.end_byte(),
    }
}

pub fn cattrs(graph: &Graph, a: &Attributes) -> CAttrs {
    a.iter()
        .map(|(k, v)| (k.as_str().to_string(), cval(graph, v)))
        .collect()
}

pub fn cgraph(graph: &Graph) -> CGraph {
    let mut out = CGraph::default();
    for n in graph.iter_nodes() {
        let gn = &graph[n];
        let mut cn = CNode {
            attrs: cattrs(graph, &gn.attributes),
            edges: Vec::new(),
        };
        for (sink, e) in gn.iter_edges() {
            cn.edges
                .push((sink.index() as u32, cattrs(graph, &e.attributes)));
        }
        cn.edges.sort_by_key(|e| e.0);
        out.nodes.push(cn);
    }
    out
}

impl CVal {
    pub fn to_json(&self) -> serde_json::Value {
        match self {
            CVal::Null => json!(null),
            CVal::Bool(b) => json!(b),
            CVal::Int(i) => json!(i),
            CVal::Str(s) => json!(s),
            CVal::List(l) => json!({"list": l.iter().map(|x| x.to_json()).collect::<Vec<_>>()}),
            CVal::Set(l) => json!({"set": l.iter().map(|x| x.to_json()).collect::<Vec<_>>()}),
            CVal::Syn {
                shown,
                kind,
                start,
                end,
            } => json!({"syn": shown, "kind": kind, "bytes": [start, end]}),
            CVal::GNode(g) => json!({"gnode": g}),
        }
    }

    /// Replaces graph-node numbers through `f` (for renumbering comparisons).
    pub fn map_gnodes(&self, f: &dyn Fn(u32) -> u32) -> CVal {
        match self {
            CVal::List(l) => CVal::List(l.iter().map(|x| x.map_gnodes(f)).collect()),
            CVal::Set(l) => CVal::Set(l.iter().map(|x| x.map_gnodes(f)).collect()),
            CVal::GNode(g) => CVal::GNode(f(*g)),
            other => other.clone(),
        }
    }

    pub fn has_gnode(&self) -> bool {
        match self {
            CVal::List(l) => l.iter().any(|x| x.has_gnode()),
            CVal::Set(l) => l.iter().any(|x| x.has_gnode()),
            CVal::GNode(_) => true,
            _ => false,
        }
    }
}

pub fn attrs_json(a: &CAttrs) -> serde_json::Value {
    let mut m = serde_json::Map::new();
    for (k, v) in a {
        m.insert(k.clone(), v.to_json());
    }
    serde_json::Value::Object(m)
}

impl CGraph {
    pub fn to_json(&self) -> serde_json::Value {
        let nodes: Vec<_> = self
            .nodes
            .iter()
            .enumerate()
            .map(|(i, n)| {
                json!({
                    "id": i,
                    "attrs": attrs_json(&n.attrs),
                    "edges": n.edges.iter().map(|(s, a)| json!({"sink": s, "attrs": attrs_json(a)})).collect::<Vec<_>>(),
                })
            })
            .collect();
        json!(nodes)
    }

    pub fn edge_count(&self) -> usize {
        self.nodes.iter().map(|n| n.edges.len()).sum()
    }

    pub fn attr_count(&self) -> usize {
        self.nodes
            .iter()
            .map(|n| n.attrs.len() + n.edges.iter().map(|e| e.1.len()).sum::<usize>())
            .sum()
    }

    /// Short text digest, for logs.
    pub fn digest(&self) -> String {
        format!(
            "graph(nodes={}, edges={}, attrs={}, h={:016x})",
            self.nodes.len(),
            self.edge_count(),
            self.attr_count(),
            crate::rng::hash_str(&self.to_json().to_string())
        )
    }
}

/// A canonical error: the leaf variant, its message, and the chain of contexts around it.
#[derive(Clone, PartialEq, Eq, Debug)]
pub struct CErr {
    /// Name of the innermost (non-InContext) variant, e.g. "DuplicateAttribute".
    pub variant: String,
    /// True iff the top-level value is itself `Cancelled` (not wrapped).
    pub top_is_cancelled: bool,
    /// Label carried by a cancellation, if the leaf is one.
    pub cancelled_at: Option<String>,
    /// Number of InContext wrappers.
    pub depth: usize,
    /// Full Display text.
    pub display: String,
}

pub fn cerr(e: &ExecutionError) -> CErr {
    let top_is_cancelled = matches!(e, ExecutionError::Cancelled(_));
    let mut depth = 0;
    let mut cur = e;
    while let ExecutionError::InContext(_, inner) = cur {
        depth += 1;
        cur = inner;
    }
    let dbg = format!("{:?}", cur);
    let variant = dbg
        .split(|c: char| !(c.is_alphanumeric() || c == '_'))
        .next()
        .unwrap_or("")
        .to_string();
    let cancelled_at = match cur {
        ExecutionError::Cancelled(c) => Some(c.0.to_string()),
        _ => None,
    };
    CErr {
        variant,
        top_is_cancelled,
        cancelled_at,
        depth,
        display: format!("{}", e),
    }
}

impl CErr {
    pub fn to_json(&self) -> serde_json::Value {
        json!({"variant": self.variant, "depth": self.depth, "display": self.display})
    }
}

/// Result of one execution, canonical.
#[derive(Clone, PartialEq, Eq, Debug)]
pub enum Outcome {
    Graph(CGraph),
    Error(CErr),
    Panic(String),
}

impl Outcome {
    pub fn class(&self) -> &'static str {
        match self {
            Outcome::Graph(_) => "ok",
            Outcome::Error(_) => "error",
            Outcome::Panic(_) => "panic",
        }
    }
    pub fn to_json(&self) -> serde_json::Value {
        match self {
            Outcome::Graph(g) => json!({"ok": g.to_json()}),
            Outcome::Error(e) => json!({"error": e.to_json()}),
            Outcome::Panic(m) => json!({"panic": m}),
        }
    }
    pub fn brief(&self) -> String {
        match self {
            Outcome::Graph(g) => g.digest(),
            Outcome::Error(e) => format!("error[{}]: {}", e.variant, e.display),
            Outcome::Panic(m) => format!("panic: {}", m),
        }
    }
}

/// Canonical rendering of a loaded file's AST through its public fields.  `Query` objects are
/// skipped (they are C pointers); hash containers are sorted.
pub fn cast(file: &tree_sitter_graph::ast::File) -> String {
    let mut out = String::new();
    for g in &file.globals {
        out.push_str(&format!(
            "global {} q={:?} default={:?} at {}\n",
            g.name, g.quantifier, g.default, g.location
        ));
    }
    let mut inh: Vec<_> = file
        .inherited_variables
        .iter()
        .map(|i| i.as_str().to_string())
        .collect();
    inh.sort();
    out.push_str(&format!("inherit {:?}\n", inh));
    let mut sh: Vec<_> = file.shorthands.iter().map(|s| format!("{}", s)).collect();
    sh.sort();
    for s in sh {
        out.push_str(&format!("shorthand {}\n", s));
    }
    for st in &file.stanzas {
        out.push_str(&format!(
            "stanza at {:?} fm_stanza={} fm_file={} captures={:?}\n",
            st.range,
            st.full_match_stanza_capture_index,
            st.full_match_file_capture_index,
            st.query.capture_names()
        ));
        for s in &st.statements {
            out.push_str(&format!("  {:?}\n", s));
        }
    }
    out
}

// ---------------------------------------------------------------------------------------------
// Comparison up to renumbering of graph nodes

/// Decides whether two canonical graphs are equal up to a renumbering of graph nodes.
/// Returns Some(true/false) when decided, None when the search budget is exhausted
/// (inconclusive — never reported as a violation).
pub fn iso_eq(a: &CGraph, b: &CGraph) -> Option<bool> {
    let n = a.nodes.len();
    if n != b.nodes.len() || a.edge_count() != b.edge_count() {
        return Some(false);
    }
    if n == 0 {
        return Some(true);
    }
    // colour refinement
    let mut ca = initial_colours(a);
    let mut cb = initial_colours(b);
    for _ in 0..n.min(12) {
        let (na, nb) = (refine(a, &ca), refine(b, &cb));
        let stable = classes(&na) == classes(&ca) && classes(&nb) == classes(&cb);
        ca = na;
        cb = nb;
        if stable {
            break;
        }
    }
    let mut sa: Vec<u64> = ca.clone();
    let mut sb: Vec<u64> = cb.clone();
    sa.sort();
    sb.sort();
    if sa != sb {
        return Some(false);
    }
    // backtracking assignment within colour classes
    let mut order: Vec<usize> = (0..n).collect();
    // most constrained first: smallest class size
    let mut class_size: BTreeMap<u64, usize> = BTreeMap::new();
    for c in &ca {
        *class_size.entry(*c).or_default() += 1;
    }
    order.sort_by_key(|i| (class_size[&ca[*i]], *i));
    let mut map = vec![u32::MAX; n];
    let mut used = vec![false; n];
    let mut budget: u64 = 200_000;
    match assign(a, b, &ca, &cb, &order, 0, &mut map, &mut used, &mut budget) {
        Some(true) => Some(true),
        Some(false) => Some(false),
        None => None,
    }
}

fn classes(c: &[u64]) -> usize {
    c.iter().collect::<BTreeSet<_>>().len()
}

fn strip(v: &CVal) -> CVal {
    v.map_gnodes(&|_| 0)
}

fn attrs_colour(a: &CAttrs) -> u64 {
    let mut h = 0u64;
    for (k, v) in a {
        h = crate::rng::hash_bytes(h, k.as_bytes());
        h = crate::rng::hash_bytes(h, format!("{:?}", strip(v)).as_bytes());
    }
    h
}

fn initial_colours(g: &CGraph) -> Vec<u64> {
    let mut indeg = vec![0u64; g.nodes.len()];
    for n in &g.nodes {
        for (s, _) in &n.edges {
            if (*s as usize) < indeg.len() {
                indeg[*s as usize] += 1;
            }
        }
    }
    g.nodes
        .iter()
        .enumerate()
        .map(|(i, n)| {
            crate::rng::mix(
                attrs_colour(&n.attrs),
                crate::rng::mix(n.edges.len() as u64, indeg[i]),
            )
        })
        .collect()
}

fn refine(g: &CGraph, c: &[u64]) -> Vec<u64> {
    let n = g.nodes.len();
    let mut incoming: Vec<Vec<u64>> = vec![Vec::new(); n];
    let mut out: Vec<u64> = Vec::with_capacity(n);
    for (i, node) in g.nodes.iter().enumerate() {
        for (s, a) in &node.edges {
            if (*s as usize) < n {
                incoming[*s as usize].push(crate::rng::mix(c[i], attrs_colour(a)));
            }
        }
    }
    for (i, node) in g.nodes.iter().enumerate() {
        let mut outs: Vec<u64> = node
            .edges
            .iter()
            .map(|(s, a)| {
                crate::rng::mix(
                    if (*s as usize) < n { c[*s as usize] } else { 0 },
                    attrs_colour(a),
                )
            })
            .collect();
        outs.sort();
        incoming[i].sort();
        // gnode-valued attributes contribute the colour of their targets
        let mut refs: Vec<u64> = Vec::new();
        for (k, v) in &node.attrs {
            collect_ref_colours(k, v, c, &mut refs);
        }
        for (_, ea) in &node.edges {
            for (k, v) in ea {
                collect_ref_colours(k, v, c, &mut refs);
            }
        }
        let mut h = c[i];
        for o in outs {
            h = crate::rng::mix(h, o);
        }
        h = crate::rng::mix(h, 0x1111);
        for o in &incoming[i] {
            h = crate::rng::mix(h, *o);
        }
        h = crate::rng::mix(h, 0x2222);
        for o in refs {
            h = crate::rng::mix(h, o);
        }
        out.push(h);
    }
    out
}

fn collect_ref_colours(k: &str, v: &CVal, c: &[u64], out: &mut Vec<u64>) {
    match v {
        CVal::GNode(g) => out.push(crate::rng::mix(
            crate::rng::hash_str(k),
            c.get(*g as usize).copied().unwrap_or(0),
        )),
        CVal::List(l) => {
            for (i, x) in l.iter().enumerate() {
                collect_ref_colours(&format!("{}[{}]", k, i), x, c, out)
            }
        }
        CVal::Set(l) => {
            let mut tmp = Vec::new();
            for x in l {
                collect_ref_colours(&format!("{}{{}}", k), x, c, &mut tmp)
            }
            tmp.sort();
            out.extend(tmp);
        }
        _ => {}
    }
}

#[allow(clippy::too_many_arguments)]
fn assign(
    a: &CGraph,
    b: &CGraph,
    ca: &[u64],
    cb: &[u64],
    order: &[usize],
    pos: usize,
    map: &mut Vec<u32>,
    used: &mut Vec<bool>,
    budget: &mut u64,
) -> Option<bool> {
    if pos == order.len() {
        return Some(full_check(a, b, map));
    }
    let i = order[pos];
    for j in 0..b.nodes.len() {
        if used[j] || cb[j] != ca[i] {
            continue;
        }
        if *budget == 0 {
            return None;
        }
        *budget -= 1;
        map[i] = j as u32;
        used[j] = true;
        if partial_ok(a, b, map, i) {
            match assign(a, b, ca, cb, order, pos + 1, map, used, budget) {
                Some(true) => return Some(true),
                None => return None,
                Some(false) => {}
            }
        }
        map[i] = u32::MAX;
        used[j] = false;
    }
    Some(false)
}

fn partial_ok(a: &CGraph, b: &CGraph, map: &[u32], i: usize) -> bool {
    // edges from i to already-mapped nodes must exist in b with equal (stripped) attributes
    let j = map[i] as usize;
    if a.nodes[i].edges.len() != b.nodes[j].edges.len() {
        return false;
    }
    for (s, ea) in &a.nodes[i].edges {
        let t = map.get(*s as usize).copied().unwrap_or(u32::MAX);
        if t == u32::MAX {
            continue;
        }
        match b.nodes[j].edges.iter().find(|(bs, _)| *bs == t) {
            None => return false,
            Some((_, eb)) => {
                if attrs_colour(ea) != attrs_colour(eb) {
                    return false;
                }
            }
        }
    }
    true
}

fn full_check(a: &CGraph, b: &CGraph, map: &[u32]) -> bool {
    let f = |g: u32| map.get(g as usize).copied().unwrap_or(u32::MAX);
    for (i, na) in a.nodes.iter().enumerate() {
        let nb = &b.nodes[map[i] as usize];
        let ma: CAttrs = na
            .attrs
            .iter()
            .map(|(k, v)| (k.clone(), v.map_gnodes(&f)))
            .collect();
        if ma != nb.attrs {
            return false;
        }
        let mut ea: Vec<(u32, CAttrs)> = na
            .edges
            .iter()
            .map(|(s, at)| {
                (
                    f(*s),
                    at.iter()
                        .map(|(k, v)| (k.clone(), v.map_gnodes(&f)))
                        .collect(),
                )
            })
            .collect();
        ea.sort_by_key(|e| e.0);
        let mut eb = nb.edges.clone();
        eb.sort_by_key(|e| e.0);
        if ea != eb {
            return false;
        }
    }
    true
}
