//! Seam S3b: the layout of the Rust heap of simulated threads.
//!
//! The harness binary installs this global allocator.  Threads that opt in get their small
//! allocations from an arena at a fixed address with exact-size LIFO free lists, so that an
//! object dropped by the system under test is *immediately and deterministically* followed at
//! the same address by the next object of the same size — the situation in which state keyed
//! by an address (a cache, an id) goes stale.  Which freed block is reused depends only on the
//! run's own allocation sequence, so a failure replays in a fresh process.  Everything else
//! (other threads, large or over-aligned blocks) goes to the system allocator.

use std::alloc::GlobalAlloc;
use std::alloc::Layout;
use std::alloc::System;
use std::cell::Cell;
use std::sync::atomic::AtomicBool;
use std::sync::atomic::AtomicU64;
use std::sync::atomic::AtomicUsize;
use std::sync::atomic::Ordering;

const BASE: usize = 0x3000_0000_0000;
const SIZE: usize = 16 << 30;
const MAX_SMALL: usize = 1 << 16;
const CLASSES: usize = MAX_SMALL / 16 + 1;

thread_local! {
    static ACTIVE: Cell<bool> = const { Cell::new(false) };
}

static READY: AtomicBool = AtomicBool::new(false);
static LOCK: AtomicBool = AtomicBool::new(false);
static BUMP: AtomicUsize = AtomicUsize::new(0);
static REUSED: AtomicU64 = AtomicU64::new(0);
static SERVED: AtomicU64 = AtomicU64::new(0);
static mut FREE: [usize; CLASSES] = [0; CLASSES];

pub struct SimHeap;

fn lock() {
    while LOCK
        .compare_exchange_weak(false, true, Ordering::Acquire, Ordering::Relaxed)
        .is_err()
    {
        std::hint::spin_loop();
    }
}

fn unlock() {
    LOCK.store(false, Ordering::Release);
}

fn in_arena(p: *mut u8) -> bool {
    let a = p as usize;
    (BASE..BASE + SIZE).contains(&a)
}

fn class_of(size: usize) -> usize {
    size.max(1).div_ceil(16)
}

/// Reserves the arena (idempotent).  Must be called before a thread opts in.
pub fn init() {
    if READY.load(Ordering::Acquire) {
        return;
    }
    lock();
    if !READY.load(Ordering::Acquire) {
        unsafe {
            let p = libc::mmap(
                BASE as *mut libc::c_void,
                SIZE,
                libc::PROT_READ | libc::PROT_WRITE,
                libc::MAP_PRIVATE | libc::MAP_ANONYMOUS | libc::MAP_NORESERVE | libc::MAP_FIXED_NOREPLACE,
                -1,
                0,
            );
            if p as usize == BASE {
                READY.store(true, Ordering::Release);
            }
        }
    }
    unlock();
}

/// Opts the current thread in or out.
pub fn set_thread_active(on: bool) {
    if on {
        init();
    }
    ACTIVE.with(|a| a.set(on && READY.load(Ordering::Acquire)));
}

pub fn thread_active() -> bool {
    ACTIVE.try_with(|a| a.get()).unwrap_or(false)
}

/// (blocks served from the arena, of which re-used a freed address)
pub fn stats() -> (u64, u64) {
    (SERVED.load(Ordering::Relaxed), REUSED.load(Ordering::Relaxed))
}

unsafe impl GlobalAlloc for SimHeap {
    unsafe fn alloc(&self, layout: Layout) -> *mut u8 {
        if layout.size() <= MAX_SMALL && layout.align() <= 16 && thread_active() {
            let class = class_of(layout.size());
            lock();
            let head = FREE[class];
            let p = if head != 0 {
                FREE[class] = *(head as *const usize);
                REUSED.fetch_add(1, Ordering::Relaxed);
                head
            } else {
                let off = BUMP.load(Ordering::Relaxed);
                if off + class * 16 > SIZE {
                    unlock();
                    return System.alloc(layout);
                }
                BUMP.store(off + class * 16, Ordering::Relaxed);
                BASE + off
            };
            unlock();
            SERVED.fetch_add(1, Ordering::Relaxed);
            return p as *mut u8;
        }
        System.alloc(layout)
    }

    unsafe fn dealloc(&self, ptr: *mut u8, layout: Layout) {
        if in_arena(ptr) {
            let class = class_of(layout.size());
            lock();
            *(ptr as *mut usize) = FREE[class];
            FREE[class] = ptr as usize;
            unlock();
            return;
        }
        System.dealloc(ptr, layout)
    }

    unsafe fn alloc_zeroed(&self, layout: Layout) -> *mut u8 {
        if layout.size() <= MAX_SMALL && layout.align() <= 16 && thread_active() {
            let p = self.alloc(layout);
            if !p.is_null() {
                std::ptr::write_bytes(p, 0, layout.size());
            }
            return p;
        }
        System.alloc_zeroed(layout)
    }

    unsafe fn realloc(&self, ptr: *mut u8, layout: Layout, new_size: usize) -> *mut u8 {
        if !in_arena(ptr) && !(new_size <= MAX_SMALL && layout.align() <= 16 && thread_active()) {
            return System.realloc(ptr, layout, new_size);
        }
        let new_layout = Layout::from_size_align_unchecked(new_size, layout.align());
        let q = self.alloc(new_layout);
        if !q.is_null() {
            std::ptr::copy_nonoverlapping(ptr, q, layout.size().min(new_size));
            self.dealloc(ptr, layout);
        }
        q
    }
}
