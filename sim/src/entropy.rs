//! Seam S2: the process's entropy source.
//!
//! std's `RandomState` obtains its SipHash keys from `getrandom(2)`, looked up as a weak
//! symbol "to allow interposition".  Defining the symbol here makes the iteration order of
//! every `HashMap`/`HashSet` inside the library under test a function of the simulated run's
//! hash seed.  Keys are cached per OS thread on first use, so a hash seed only takes effect
//! on a thread spawned for the run (see `with_hash_seed`).

use std::cell::Cell;

use crate::rng::splitmix;

thread_local! {
    static HASH_SEED: Cell<u64> = const { Cell::new(0) };
    static ACTIVE: Cell<bool> = const { Cell::new(false) };
    static CALLS: Cell<u64> = const { Cell::new(0) };
}

#[no_mangle]
pub unsafe extern "C" fn getrandom(
    buf: *mut libc::c_void,
    len: libc::size_t,
    flags: libc::c_uint,
) -> libc::ssize_t {
    let active = ACTIVE.try_with(|a| a.get()).unwrap_or(false);
    if !active {
        return libc::syscall(libc::SYS_getrandom, buf, len, flags) as libc::ssize_t;
    }
    let seed = HASH_SEED.with(|s| s.get());
    let n = CALLS.with(|c| {
        let v = c.get();
        c.set(v + 1);
        v
    });
    let mut x = seed ^ n.wrapping_mul(0xA076_1D64_78BD_642F);
    let out = std::slice::from_raw_parts_mut(buf as *mut u8, len);
    let mut i = 0;
    while i < len {
        let w = splitmix(&mut x).to_le_bytes();
        let m = (len - i).min(8);
        out[i..i + m].copy_from_slice(&w[..m]);
        i += m;
    }
    len as libc::ssize_t
}

/// Marks the current (freshly spawned) thread as simulated with the given hash seed.
pub fn set_thread_hash_seed(seed: u64) {
    HASH_SEED.with(|s| s.set(seed));
    CALLS.with(|c| c.set(0));
    ACTIVE.with(|a| a.set(true));
}

/// Number of times the library asked for entropy on this thread.
pub fn thread_entropy_calls() -> u64 {
    CALLS.with(|c| c.get())
}

/// Runs `f` on a fresh OS thread whose hash keys derive from `hash_seed`.
/// A panic inside `f` is returned as `Err(message)`.
pub fn with_hash_seed<T: Send + 'static>(
    hash_seed: u64,
    f: impl FnOnce() -> T + Send + 'static,
) -> Result<T, String> {
    with_thread_env(hash_seed, false, f)
}

/// As `with_hash_seed`; with `lifo_heap` the thread's small Rust allocations come from the
/// simulated heap (seam S3b: exact-size LIFO address reuse).
pub fn with_thread_env<T: Send + 'static>(
    hash_seed: u64,
    lifo_heap: bool,
    f: impl FnOnce() -> T + Send + 'static,
) -> Result<T, String> {
    if lifo_heap {
        crate::heap::init();
    }
    let h = std::thread::Builder::new()
        .stack_size(64 << 20)
        .spawn(move || {
            set_thread_hash_seed(hash_seed);
            crate::heap::set_thread_active(lifo_heap);
            let r = f();
            crate::heap::set_thread_active(false);
            r
        })
        .expect("spawn run thread");
    match h.join() {
        Ok(v) => Ok(v),
        Err(e) => Err(panic_message(&e)),
    }
}

pub fn panic_message(e: &Box<dyn std::any::Any + Send>) -> String {
    if let Some(s) = e.downcast_ref::<&str>() {
        s.to_string()
    } else if let Some(s) = e.downcast_ref::<String>() {
        s.clone()
    } else {
        "<non-string panic>".to_string()
    }
}

/// A probe: the iteration order of a std HashSet of fixed keys on the current thread.
/// Used by the determinism self-test and to classify distinct hash orders.
pub fn hash_order_probe() -> String {
    let mut s = std::collections::HashSet::new();
    for k in ["a", "b", "c", "d", "e", "f", "g", "h"] {
        s.insert(k);
    }
    s.into_iter().collect::<Vec<_>>().join("")
}


// ---------------------------------------------------------------------------------------------
// Seam S7: the clock of simulated threads.
//
// The library has no timers of its own, but tree-sitter's query cursor and parser can be given
// a time budget and read CLOCK_MONOTONIC when they have one.  Defining `clock_gettime` in the
// harness binary routes every clock read of the process (Rust std, tree-sitter's C code)
// through here.  A thread may opt in to a *fast-forward* clock: every read advances simulated
// time by a further seeded jump of up to three seconds — a very slow or heavily loaded machine.
// Only single-threaded runs opt in (the scheduler's own timeouts need the real clock).

thread_local! {
    static CLOCK_FAST: Cell<bool> = const { Cell::new(false) };
    static CLOCK_OFFSET_NS: Cell<u64> = const { Cell::new(0) };
    static CLOCK_STATE: Cell<u64> = const { Cell::new(0) };
    static CLOCK_READS: Cell<u64> = const { Cell::new(0) };
}

#[no_mangle]
pub unsafe extern "C" fn clock_gettime(clk: libc::clockid_t, ts: *mut libc::timespec) -> libc::c_int {
    let r = libc::syscall(libc::SYS_clock_gettime, clk, ts) as libc::c_int;
    if r != 0 || ts.is_null() {
        return r;
    }
    let fast = CLOCK_FAST.try_with(|c| c.get()).unwrap_or(false);
    if fast && (clk == libc::CLOCK_MONOTONIC || clk == libc::CLOCK_MONOTONIC_RAW) {
        let mut x = CLOCK_STATE.with(|s| s.get());
        let jump = splitmix(&mut x) % 3_000_000_000;
        CLOCK_STATE.with(|s| s.set(x));
        let off = CLOCK_OFFSET_NS.with(|o| {
            let v = o.get() + jump;
            o.set(v);
            v
        });
        CLOCK_READS.with(|c| c.set(c.get() + 1));
        let total = (*ts).tv_nsec as u64 + off % 1_000_000_000;
        (*ts).tv_sec += (off / 1_000_000_000) as libc::time_t + (total / 1_000_000_000) as libc::time_t;
        (*ts).tv_nsec = (total % 1_000_000_000) as libc::c_long;
    }
    r
}

/// Switches the current thread's monotonic clock to fast-forward mode (or back).
pub fn set_thread_clock_fast(seed: Option<u64>) {
    CLOCK_FAST.with(|c| c.set(seed.is_some()));
    CLOCK_STATE.with(|s| s.set(seed.unwrap_or(0)));
    CLOCK_OFFSET_NS.with(|o| o.set(0));
    CLOCK_READS.with(|c| c.set(0));
}

/// Clock reads served in fast-forward mode on this thread.
pub fn thread_clock_reads() -> u64 {
    CLOCK_READS.with(|c| c.get())
}


// ---------------------------------------------------------------------------------------------
// Seam S8: blocking.  Rust's std blocks in `syscall(SYS_futex, ..)`; defining `syscall` here
// routes those calls (and every other use of libc's generic `syscall` by Rust code in this
// process) through the harness.  Futex calls of scheduled workers go to the scheduler
// (sched.rs); everything else is executed unchanged.
//
// `syscall` is variadic in C; on x86-64 integer arguments of variadic and ordinary calls travel
// in the same registers, so six fixed arguments are read (unused ones hold garbage and are
// ignored by the kernel).

/// The system call itself; result in kernel convention (negative errno on failure).
#[cfg(target_arch = "x86_64")]
pub unsafe fn raw_syscall6(num: libc::c_long, a1: usize, a2: usize, a3: usize, a4: usize, a5: usize, a6: usize) -> isize {
    let ret: isize;
    core::arch::asm!(
        "syscall",
        inlateout("rax") num as isize => ret,
        in("rdi") a1,
        in("rsi") a2,
        in("rdx") a3,
        in("r10") a4,
        in("r8") a5,
        in("r9") a6,
        lateout("rcx") _,
        lateout("r11") _,
        options(nostack)
    );
    ret
}

#[cfg(target_arch = "x86_64")]
#[no_mangle]
pub unsafe extern "C" fn syscall(num: libc::c_long, a1: usize, a2: usize, a3: usize, a4: usize, a5: usize, a6: usize) -> libc::c_long {
    let r: isize = if num == libc::SYS_futex {
        match crate::sched::futex_hook(a1, a2 as i32, a3 as u32, a4) {
            Some(r) => r as isize,
            None => raw_syscall6(num, a1, a2, a3, a4, a5, a6),
        }
    } else {
        raw_syscall6(num, a1, a2, a3, a4, a5, a6)
    };
    if (-4095..0).contains(&r) {
        *libc::__errno_location() = (-r) as libc::c_int;
        -1
    } else {
        r as libc::c_long
    }
}
