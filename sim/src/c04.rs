//! C04 — scoped variables follow syntax-node identity and inherit only when declared.
//!
//! "The same syntax node" is implemented from the node's heap address, and heap addresses are
//! chosen by the environment; the layout simulator (alloc.rs) owns that choice.  Schema
//! programs are executed under seeded layouts and hash keys and compared with a reference
//! model that walks the tree with tree-sitter's own API (identity = full-width `Node::id()`).

use std::collections::BTreeMap;

use serde_json::json;
use serde_json::Value as J;
use streaming_iterator::StreamingIterator;
use tree_sitter::Node;
use tree_sitter::Query;
use tree_sitter::QueryCursor;
use tree_sitter::Tree;

use crate::alloc;
use crate::alloc::Policy;
use crate::canon::CVal;
use crate::canon::Outcome;
use crate::engine::CheckMeta;
use crate::engine::Report;
use crate::engine::ShardCtx;
use crate::engine::Tier;
use crate::engine::Violation;
use crate::entropy;
use crate::pysrc;
use crate::rng;
use crate::rng::Rng;
use crate::simrun;

pub fn meta() -> CheckMeta {
    CheckMeta {
        prop: "C04",
        level: "exploration",
        rule: "Cases are (schema program, generated Python source, mode, layout policy, hash seed). A schema program has \
definer stanzas that attach a tag (or a syntax-node-valued link) to every node reached by a single-capture query, and reader \
stanzas that reach nodes through other capture names, list captures + for, parent patterns and two-step chains and copy \
their own tag and the scoped variable into a fresh graph node. The reference model recomputes definitions and reads with \
tree-sitter's own query cursor and full-width node ids. A case is non-trivial when at least one definition and one read \
take place; distinct = distinct hash of (program, source, mode, layout).",
        distinct_key: "cases",
        assumptions: vec![
            "tree-sitter's own query cursor and Node::id()/parent() are trusted as the meaning of 'match' and 'same node'",
            "every layout policy is behaviour a conforming malloc may show (no aliasing of live blocks)",
            "the inheritance and duplicate clauses are pure; they are decided here because the layout workload needs an oracle anyway",
        ],
        real: vec![
            "tree-sitter-graph parser, checker, strict and lazy interpreters, graph, stdlib functions",
            "tree-sitter C runtime (allocating through the simulated allocator) and tree-sitter-python grammar",
        ],
        stubbed: vec![
            "malloc/calloc/realloc/free of the tree-sitter runtime (arena allocator with seeded layout policies)",
            "getrandom (hash keys derived from the run seed)",
        ],
        required_probes: vec![
            "probe.tree_with_low32_id_collision",
            "probe.inherited_read_resolved_by_ancestor",
            "probe.model_expects_failure",
            "probe.strict_read_between_definitions",
            "probe.read_through_list_element",
            "probe.read_through_chain",
            "probe.mutable_variable_reassigned",
            "probe.effectful_value_read_again",
            "probe.definition_through_local_or_loop_scope",
            "probe.null_valued_definition",
            "probe.value_copied_from_another_node",
            "probe.ancestor_more_than_256_levels_up",
            "probe.tree_with_zero_width_node_and_inherit",
            "probe.layout.descending",
            "probe.layout.scatter",
            "probe.layout.reuse",
        ],
        fault_kinds: vec!["layout", "hash_keys"],
    }
}

fn tag_expr(x: &str) -> String {
    format!(
        "(format \"{{}}:{{}}:{{}}:{{}}:{{}}\" (node-type {x}) (start-row {x}) (start-column {x}) (end-row {x}) (end-column {x}))",
        x = x
    )
}

fn tag_of(n: &Node) -> String {
    format!(
        "{}:{}:{}:{}:{}",
        n.kind(),
        n.start_position().row,
        n.start_position().column,
        n.end_position().row,
        n.end_position().column
    )
}

#[derive(Clone, Debug)]
enum Stz {
    /// `let @x.NAME = TAG(@x)` for every match of `query` (capture x); `var` when mutable
    DefTag { query: String, name: String, mutable: bool },
    /// strict only: `set @y.NAME = "M:" TAG(@y)` — needs an own, mutable definition on @y
    Mutate { query: String, name: String },
    /// `let @x.NAME = #null`: a definition whose value is null is still a definition
    DefNull { query: String, name: String },
    /// `let @b.NAME = @f.NAME`: the value is the same-named variable of another node
    DefCopy { query: String, name: String },
    /// `let al = @x  let al.NAME = TAG(al)`: the scope is a local holding the node
    DefAlias { query: String, name: String },
    /// `for y in @ys { let y.NAME = TAG(y) }`: the scope is a loop variable
    DefElems { query: String, name: String },
    /// `let @x.NAME = (node)`: the value has an effect (a graph node) and must be computed once
    DefNode { query: String, name: String },
    /// `attr (@y.NAME) r<idx> = TAG(@y)`: annotates the shared graph node through another route
    ReadNode { query: String, name: String },
    /// `let @c.LINK = @f` (syntax-node-valued)
    DefLink { query: String, name: String },
    /// `for y in @ys { let @x.NAME = TAG(@x) }`: one definition on the fixed node @x per list
    /// element (a duplicate as soon as the list has two elements)
    DefInLoop { query: String, name: String },
    /// reader: `attr (n) rd, self = TAG(@y), got = @y.NAME`
    ReadDirect { query: String, name: String },
    /// reader through a list capture `@ys` and `for`
    ReadList { query: String, name: String },
    /// the same, preceded by `let vs = [ y.NAME for y in @ys ]` (and a set comprehension): the
    /// element variable of a comprehension is a single node and can be a scope
    ReadListComp { query: String, name: String },
    /// reader through a link: `got = @c.LINK.NAME`
    ReadChain { query: String, link: String, name: String },
}

#[derive(Clone, Debug)]
struct Schema {
    inherits: Vec<String>,
    stanzas: Vec<Stz>,
    /// direct readers read through an attribute shorthand (`attribute got_NAME = x => got =
    /// x.NAME`, used as `got_NAME = @y`): the lookup, inheritance included, is the same
    short_reads: bool,
}

const DEF_QUERIES: &[&str] = &[
    "(identifier) @x",
    "(call) @x",
    "(integer) @x",
    "(string) @x",
    "(assignment) @x",
    "(function_definition) @x",
    "(module) @x",
    "(binary_operator) @x",
    "(argument_list) @x",
    "(expression_statement) @x",
    "(block) @x",
    "(attribute) @x",
    "(parenthesized_expression) @x",
    "(call function: (identifier) @x)",
    "(assignment left: (identifier) @x)",
    "(argument_list (_) @x)",
    "(module (_) @x)",
    // the variable goes on a fixed node while the match varies: defined once per child
    "(module (_) @_c) @x",
    "(argument_list (_) @_c) @x",
    "(block (_) @_c) @x",
    "(call arguments: (argument_list (_) @_c)) @x",
];

const DEF_LOOP_QUERIES: &[&str] = &[
    "(argument_list (_)* @ys) @x",
    "(parameters (identifier)* @ys) @x",
    "(block (_)+ @ys) @x",
];

const READ_DIRECT: &[&str] = &[
    "(block) @y",
    "(_ (_) @y)",
    "(identifier) @y",
    "(call) @y",
    "(integer) @y",
    "(string) @y",
    "(assignment) @y",
    "(binary_operator) @y",
    "(expression_statement) @y",
    "(attribute) @y",
    "(parenthesized_expression) @y",
    "(call function: (_) @y)",
    "(_ (identifier) @y)",
    "(assignment right: (_) @y)",
    "(binary_operator left: (_) @y)",
    "(argument_list (_) @y)",
    "(block (_) @y)",
    "(function_definition name: (identifier) @y)",
];

const READ_LIST: &[&str] = &[
    "(argument_list (_)* @ys)",
    "(module (_)* @ys)",
    "(parameters (identifier)* @ys)",
    "(block (_)+ @ys)",
    "(list (_)* @ys)",
];

const LINK_QUERIES: &[&str] = &[
    "(call function: (identifier) @f) @c",
    "(assignment left: (identifier) @f) @c",
    "(function_definition name: (identifier) @f) @c",
    "(attribute attribute: (identifier) @f) @c",
];

fn link_reader_for(q: &str) -> &'static str {
    if q.starts_with("(call") {
        "(call) @c"
    } else if q.starts_with("(assignment") {
        "(assignment) @c"
    } else if q.starts_with("(function_definition") {
        "(function_definition) @c"
    } else {
        "(attribute) @c"
    }
}

fn gen_schema(r: &mut Rng, lazy: bool) -> Schema {
    let mut s = Schema {
        inherits: Vec::new(),
        stanzas: Vec::new(),
        short_reads: r.chance(1, 6),
    };
    let style = r.below(5);
    let name = "tag".to_string();
    match style {
        0 => {
            // every identifier tagged; identifiers read through several routes
            s.stanzas.push(Stz::DefTag { query: "(identifier) @x".into(), name: name.clone(), mutable: false });
            let n = r.range(1, 3);
            for _ in 0..n {
                let q = *r.pick(&[
                    "(identifier) @y",
                    "(_ (identifier) @y)",
                    "(function_definition name: (identifier) @y)",
                ]);
                s.stanzas.push(Stz::ReadDirect { query: q.into(), name: name.clone() });
            }
            if r.chance(1, 2) {
                s.stanzas.push(Stz::ReadList { query: "(parameters (identifier)* @ys)".into(), name: name.clone() });
            }
            if r.chance(1, 2) {
                s.stanzas.push(Stz::DefNode { query: "(identifier) @x".into(), name: "gn".into() });
                for _ in 0..r.range(1, 3) {
                    let q = *r.pick(&["(identifier) @y", "(_ (identifier) @y)", "(call function: (identifier) @y)", "(assignment left: (identifier) @y)"]);
                    s.stanzas.push(Stz::ReadNode { query: q.into(), name: "gn".into() });
                }
            }
            let lq = *r.pick(LINK_QUERIES);
            s.stanzas.push(Stz::DefLink { query: lq.into(), name: "lnk".into() });
            s.stanzas.push(Stz::ReadChain { query: link_reader_for(lq).into(), link: "lnk".into(), name: name.clone() });
        }
        1 => {
            // containers tagged and inherited by everything below
            s.inherits.push(name.clone());
            let containers = ["(module) @x", "(function_definition) @x", "(call) @x", "(block) @x", "(argument_list) @x", "(assignment) @x"];
            s.stanzas.push(Stz::DefTag { query: "(module) @x".into(), name: name.clone(), mutable: false });
            let n = r.range(0, 3);
            let mut used = vec!["(module) @x"];
            for _ in 0..n {
                let q = *r.pick(&containers);
                if !used.contains(&q) {
                    used.push(q);
                    s.stanzas.push(Stz::DefTag { query: q.into(), name: name.clone(), mutable: false });
                }
            }
            // a nearer definition whose value is #null is still the nearest definition
            if r.chance(1, 3) {
                let q = *r.pick(&["(function_definition) @x", "(block) @x", "(call) @x", "(argument_list) @x", "(expression_statement) @x"]);
                if !s.stanzas.iter().any(|z| matches!(z, Stz::DefTag { query, .. } if query == q)) {
                    s.stanzas.push(Stz::DefNull { query: q.into(), name: name.clone() });
                }
            }
            // ... and so is one whose value is the same-named variable of another node
            if r.chance(1, 3) {
                let q = *r.pick(&["(function_definition body: (block) @b) @f", "(call arguments: (argument_list) @b) @f", "(assignment right: (_) @b) @f", "(expression_statement (_) @b) @f"]);
                let target_kind = if q.contains("(block) @b") { "(block) @x" } else if q.contains("(argument_list) @b") { "(argument_list) @x" } else { "" };
                if !s.stanzas.iter().any(|z| matches!(z, Stz::DefTag { query, .. } | Stz::DefNull { query, .. } if query == target_kind)) {
                    s.stanzas.push(Stz::DefCopy { query: q.into(), name: name.clone() });
                }
            }
            // an unrelated variable on nodes between readers and the defining ancestor must not
            // stop the search for `tag`
            if r.chance(1, 2) {
                for _ in 0..r.range(1, 2) {
                    let q = *r.pick(&["(function_definition) @x", "(block) @x", "(call) @x", "(argument_list) @x", "(assignment) @x", "(expression_statement) @x", "(binary_operator) @x"]);
                    if !s.stanzas.iter().any(|z| matches!(z, Stz::DefTag { query, name, .. } if query == q && name == "other")) {
                        s.stanzas.push(Stz::DefTag { query: q.into(), name: "other".into(), mutable: false });
                    }
                }
            }
            let m = r.range(1, 3);
            for _ in 0..m {
                if r.chance(1, 3) {
                    s.stanzas.push(Stz::ReadList { query: (*r.pick(READ_LIST)).into(), name: name.clone() });
                } else {
                    s.stanzas.push(Stz::ReadDirect { query: (*r.pick(READ_DIRECT)).into(), name: name.clone() });
                }
            }
            // a second inherited name, defined on the root and on nearer containers, read from
            // the very nodes that read the first one
            if r.chance(1, 3) {
                s.inherits.push("oth".into());
                s.stanzas.push(Stz::DefTag { query: "(module) @x".into(), name: "oth".into(), mutable: false });
                for _ in 0..r.range(1, 2) {
                    let q = *r.pick(&containers[1..]);
                    if !s.stanzas.iter().any(|z| matches!(z, Stz::DefTag { query, name, .. } if query == q && name == "oth")) {
                        s.stanzas.push(Stz::DefTag { query: q.into(), name: "oth".into(), mutable: false });
                    }
                }
                let again: Vec<Stz> = s
                    .stanzas
                    .iter()
                    .filter_map(|z| match z {
                        Stz::ReadDirect { query, name: n } if *n == name => Some(Stz::ReadDirect { query: query.clone(), name: "oth".into() }),
                        Stz::ReadList { query, name: n } if *n == name => Some(Stz::ReadList { query: query.clone(), name: "oth".into() }),
                        _ => None,
                    })
                    .collect();
                s.stanzas.extend(again);
            }
            // strict only: the containers' variables are mutable, and the root's is re-assigned
            // between two rounds of (inherited) reads from the same nodes
            if !lazy && r.chance(1, 3) {
                for z in s.stanzas.iter_mut() {
                    if let Stz::DefTag { name: n, mutable, .. } = z {
                        if *n == name {
                            *mutable = true;
                        }
                    }
                }
                let again: Vec<Stz> = s
                    .stanzas
                    .iter()
                    .filter(|z| matches!(z, Stz::ReadDirect { name: n, .. } | Stz::ReadList { name: n, .. } if *n == name))
                    .cloned()
                    .collect();
                s.stanzas.push(Stz::Mutate { query: "(module) @y".into(), name: name.clone() });
                s.stanzas.extend(again);
            }
        }
        2 => {
            // all nodes of several kinds tagged via one wildcard-free definer each; readers on the same kinds
            let kinds = ["identifier", "call", "integer", "string", "binary_operator", "attribute", "expression_statement"];
            let n = r.range(1, 4);
            let mut chosen: Vec<&str> = Vec::new();
            for _ in 0..n {
                let k = *r.pick(&kinds);
                if !chosen.contains(&k) {
                    chosen.push(k);
                }
            }
            // in strict mode the variables may be mutable and re-assigned through another capture
            let mutable = !lazy && r.chance(1, 2);
            for k in &chosen {
                s.stanzas.push(Stz::DefTag { query: format!("({}) @x", k), name: name.clone(), mutable });
            }
            if mutable || r.chance(1, 8) {
                let k = *r.pick(&chosen);
                let q = if r.chance(1, 4) { (*r.pick(READ_DIRECT)).to_string() } else { format!("({}) @y", k) };
                s.stanzas.push(Stz::Mutate { query: q, name: name.clone() });
            }
            for k in &chosen {
                s.stanzas.push(Stz::ReadDirect { query: format!("({}) @y", k), name: name.clone() });
            }
            // a second, unrelated name on other nodes must not leak
            if r.chance(1, 2) {
                s.stanzas.push(Stz::DefTag { query: "(module) @x".into(), name: "other".into(), mutable: false });
            }
        }
        3 => {
            // arbitrary mix: may or may not resolve, may or may not be duplicated
            if r.chance(1, 2) {
                s.inherits.push(name.clone());
            }
            let n = r.range(1, 3);
            for _ in 0..n {
                if r.chance(1, 5) {
                    s.stanzas.push(Stz::DefInLoop { query: (*r.pick(DEF_LOOP_QUERIES)).into(), name: name.clone() });
                } else if r.chance(1, 4) {
                    s.stanzas.push(Stz::DefAlias { query: (*r.pick(DEF_QUERIES)).into(), name: name.clone() });
                } else if r.chance(1, 5) {
                    s.stanzas.push(Stz::DefElems { query: (*r.pick(READ_LIST)).into(), name: name.clone() });
                } else {
                    // (strict mode: some of the definitions are `var`; two of them on one node are
                    // a duplicate like any other pair)
                    let mutable = !lazy && r.chance(1, 3);
                    s.stanzas.push(Stz::DefTag { query: (*r.pick(DEF_QUERIES)).into(), name: name.clone(), mutable });
                }
            }
            let m = r.range(1, 3);
            for _ in 0..m {
                match r.below(3) {
                    0 => s.stanzas.push(Stz::ReadList { query: (*r.pick(READ_LIST)).into(), name: name.clone() }),
                    _ => s.stanzas.push(Stz::ReadDirect { query: (*r.pick(READ_DIRECT)).into(), name: name.clone() }),
                }
            }
        }
        _ => {
            // wildcard definer over all children of module, read through the list route
            if r.chance(1, 3) {
                s.stanzas.push(Stz::DefElems { query: "(module (_)* @ys)".into(), name: name.clone() });
            } else {
                s.stanzas.push(Stz::DefTag { query: "(module (_) @x)".into(), name: name.clone(), mutable: false });
            }
            if r.chance(1, 4) {
                // a second definition of the same nodes through another kind of scope: a duplicate
                s.stanzas.push(Stz::DefAlias { query: "(module (_) @x)".into(), name: name.clone() });
            }
            s.stanzas.push(Stz::ReadList { query: "(module (_)* @ys)".into(), name: name.clone() });
            if r.chance(1, 2) {
                s.stanzas.push(Stz::DefTag { query: "(argument_list (_) @x)".into(), name: name.clone(), mutable: false });
                s.stanzas.push(Stz::ReadList { query: "(argument_list (_)* @ys)".into(), name: name.clone() });
            }
        }
    }
    // a third of the list readers also read through list and set comprehensions
    for z in s.stanzas.iter_mut() {
        if let Stz::ReadList { query, name } = z {
            if r.chance(1, 3) {
                *z = Stz::ReadListComp { query: query.clone(), name: name.clone() };
            }
        }
    }
    s
}

fn render(s: &Schema, order: &[usize]) -> String {
    let mut out = String::new();
    for i in &s.inherits {
        out.push_str(&format!("inherit .{}\n", i));
    }
    if s.short_reads {
        let mut names: Vec<&String> = s.stanzas.iter().filter_map(|z| if let Stz::ReadDirect { name, .. } = z { Some(name) } else { None }).collect();
        names.sort();
        names.dedup();
        for n in names {
            out.push_str(&format!("attribute got_{} = x => got = x.{}\n", n, n));
        }
    }
    out.push('\n');
    for (ri, idx) in order.iter().enumerate() {
        let _ = ri;
        match &s.stanzas[*idx] {
            Stz::DefTag { query, name, mutable } => out.push_str(&format!(
                "{}\n{{\n  {} @x.{} = {}\n}}\n\n",
                query,
                if *mutable { "var" } else { "let" },
                name,
                tag_expr("@x")
            )),
            Stz::DefNull { query, name } => out.push_str(&format!("{}\n{{\n  let @x.{} = #null\n}}\n\n", query, name)),
            Stz::DefCopy { query, name } => out.push_str(&format!("{}\n{{\n  let @b.{} = @f.{}\n}}\n\n", query, name, name)),
            Stz::DefAlias { query, name } => out.push_str(&format!(
                "{}\n{{\n  let al = @x\n  let al.{} = {}\n}}\n\n",
                query,
                name,
                tag_expr("al")
            )),
            Stz::DefElems { query, name } => out.push_str(&format!(
                "{}\n{{\n  for y in @ys {{\n    let y.{} = {}\n  }}\n}}\n\n",
                query,
                name,
                tag_expr("y")
            )),
            Stz::DefNode { query, name } => out.push_str(&format!(
                "{}\n{{\n  let @x.{} = (node)\n}}\n\n",
                query, name
            )),
            Stz::ReadNode { query, name } => out.push_str(&format!(
                "{}\n{{\n  attr (@y.{}) r{} = {}\n}}\n\n",
                query,
                name,
                idx,
                tag_expr("@y")
            )),
            Stz::Mutate { query, name } => out.push_str(&format!(
                "{}\n{{\n  set @y.{} = (format \"M:{{}}\" {})\n}}\n\n",
                query,
                name,
                tag_expr("@y")
            )),
            Stz::DefLink { query, name } => {
                out.push_str(&format!("{}\n{{\n  let @c.{} = @f\n}}\n\n", query, name))
            }
            Stz::DefInLoop { query, name } => out.push_str(&format!(
                "{}\n{{\n  for y in @ys {{\n    let @x.{} = {}\n  }}\n}}\n\n",
                query,
                name,
                tag_expr("@x")
            )),
            Stz::ReadDirect { query, name } if s.short_reads => out.push_str(&format!(
                "{}\n{{\n  node n\n  attr (n) rd = \"{}\", self = {}, got_{} = @y\n}}\n\n",
                query,
                idx,
                tag_expr("@y"),
                name
            )),
            Stz::ReadDirect { query, name } => out.push_str(&format!(
                "{}\n{{\n  node n\n  attr (n) rd = \"{}\", self = {}, got = @y.{}\n}}\n\n",
                query,
                idx,
                tag_expr("@y"),
                name
            )),
            Stz::ReadList { query, name } => out.push_str(&format!(
                "{}\n{{\n  for y in @ys {{\n    node n\n    attr (n) rd = \"{}\", self = {}, got = y.{}\n  }}\n}}\n\n",
                query,
                idx,
                tag_expr("y"),
                name
            )),
            Stz::ReadListComp { query, name } => out.push_str(&format!(
                "{}\n{{\n  let vs = [ y.{} for y in @ys ]\n  let ws = {{ y.{} for y in @ys }}\n  for y in @ys {{\n    node n\n    attr (n) rd = \"{}\", self = {}, got = y.{}\n  }}\n}}\n\n",
                query,
                name,
                name,
                idx,
                tag_expr("y"),
                name
            )),
            Stz::ReadChain { query, link, name } => out.push_str(&format!(
                "{}\n{{\n  node n\n  attr (n) rd = \"{}\", self = {}, got = @c.{}.{}\n}}\n\n",
                query,
                idx,
                tag_expr("@c"),
                link,
                name
            )),
        }
    }
    out
}

/// All matches of `query`, each as the list of nodes captured under `cap`.
fn matches<'t>(query: &str, cap: &str, tree: &'t Tree, source: &str) -> Result<Vec<Vec<Node<'t>>>, String> {
    let q = Query::new(&simrun::language(), query).map_err(|e| format!("model query {}: {}", query, e))?;
    let idx = q
        .capture_index_for_name(cap)
        .ok_or_else(|| format!("capture {} not in {}", cap, query))?;
    let mut cursor = QueryCursor::new();
    let mut out = Vec::new();
    let mut it = cursor.matches(&q, tree.root_node(), source.as_bytes());
    while let Some(m) = it.next() {
        out.push(m.nodes_for_capture_index(idx).collect());
    }
    Ok(out)
}

#[derive(Debug, Default)]
struct Expected {
    fails: bool,
    why: String,
    rows: Vec<(String, String, String)>,
    definitions: usize,
    reads: usize,
    inherited_reads: usize,
    list_reads: usize,
    chain_reads: usize,
    mutations: usize,
    shared_reads: usize,
    noncapture_scope_defs: usize,
    null_defs: usize,
    copy_defs: usize,
    /// graph nodes created by `(node)` definitions: their attribute maps, sorted
    shared: Vec<BTreeMap<String, String>>,
}

/// The reference model.  In lazy mode every definition is collected before any read is
/// resolved; in strict mode stanzas run in file order, so a read sees exactly the definitions
/// made by the stanzas before it (and the nearest ancestor is the nearest one defined *then*).
fn model(s: &Schema, order: &[usize], lazy: bool, tree: &Tree, source: &str) -> Result<Expected, String> {
    let mut e = Expected::default();
    let mut tags: BTreeMap<String, BTreeMap<usize, String>> = BTreeMap::new();
    let mut mutable_defs: std::collections::BTreeSet<(String, usize)> = Default::default();
    let mut links: BTreeMap<String, BTreeMap<usize, Node>> = BTreeMap::new();
    // (name -> node id -> index into e.shared)
    let mut shared_of: BTreeMap<String, BTreeMap<usize, usize>> = BTreeMap::new();
    // lazy mode: (name, node) -> node whose same-named variable is the value
    let mut copies: BTreeMap<(String, usize), Node> = BTreeMap::new();
    // two passes in lazy mode (definitions, then reads); one pass in file order in strict mode
    let passes: Vec<(Vec<usize>, bool, bool)> = if lazy {
        vec![(order.to_vec(), true, false), (order.to_vec(), false, true)]
    } else {
        vec![(order.to_vec(), true, true)]
    };
    for (idxs, do_defs, do_reads) in passes {
        if lazy && do_reads && !copies.is_empty() {
            // resolve the copied values now that every definition is known (a copy of a copy
            // resolves once its source has; whatever is left is a cycle)
            let mut pending: Vec<((String, usize), Node)> = copies.iter().map(|(k, v)| (k.clone(), *v)).collect();
            loop {
                let before = pending.len();
                let mut rest = Vec::new();
                for ((name, b), f) in pending {
                    let map = tags.get(&name);
                    let mut found = map.and_then(|m| m.get(&f.id()).cloned());
                    if found.is_none() && s.inherits.iter().any(|i| *i == name) {
                        let mut p = f.parent();
                        while let Some(a) = p {
                            if let Some(t) = map.and_then(|m| m.get(&a.id())) {
                                found = Some(t.clone());
                                break;
                            }
                            p = a.parent();
                        }
                    }
                    match found {
                        None => {
                            e.fails = true;
                            e.why = format!("{} undefined on {} when copied", name, tag_of(&f));
                        }
                        Some(v) if v.starts_with('\u{0}') => rest.push(((name, b), f)),
                        Some(v) => {
                            tags.get_mut(&name).unwrap().insert(b, v);
                        }
                    }
                }
                pending = rest;
                if pending.is_empty() {
                    break;
                }
                if pending.len() == before {
                    e.fails = true;
                    e.why = "a copied scoped variable depends on itself".into();
                    break;
                }
            }
        }
        for idx in idxs {
            if e.fails && !lazy {
                break; // strict execution stops at the first error
            }
            let st = &s.stanzas[idx];
            match st {
                Stz::DefNode { query, name } if do_defs => {
                    for m in matches(query, "x", tree, source)? {
                        let n = m[0];
                        e.definitions += 1;
                        e.shared.push(BTreeMap::new());
                        let idx2 = e.shared.len() - 1;
                        if shared_of.entry(name.clone()).or_default().insert(n.id(), idx2).is_some() {
                            e.fails = true;
                            e.why = format!("{} defined twice on {}", name, tag_of(&n));
                        }
                    }
                }
                Stz::ReadNode { query, name } if do_reads => {
                    for m in matches(query, "y", tree, source)? {
                        let n = m[0];
                        e.reads += 1;
                        e.shared_reads += 1;
                        match shared_of.get(name).and_then(|mm| mm.get(&n.id())).cloned() {
                            Some(i) => {
                                let key = format!("r{}", idx);
                                let val = tag_of(&n);
                                match e.shared[i].get(&key) {
                                    None => {
                                        e.shared[i].insert(key, val);
                                    }
                                    Some(old) if *old == val => {}
                                    Some(_) => {
                                        e.fails = true;
                                        e.why = "conflicting attribute on a shared node".into();
                                    }
                                }
                            }
                            None => {
                                e.fails = true;
                                e.why = format!("{} undefined on {}", name, tag_of(&n));
                            }
                        }
                    }
                }
                Stz::Mutate { query, name } if do_defs => {
                    for m in matches(query, "y", tree, source)? {
                        let n = m[0];
                        e.mutations += 1;
                        if lazy {
                            e.fails = true;
                            e.why = "scoped variables cannot be assigned in lazy mode".into();
                        } else if mutable_defs.contains(&(name.clone(), n.id())) {
                            tags.get_mut(name).unwrap().insert(n.id(), format!("M:{}", tag_of(&n)));
                        } else {
                            e.fails = true;
                            e.why = format!("{} assigned on {} which has no mutable definition of its own", name, tag_of(&n));
                        }
                        if e.fails && !lazy {
                            break;
                        }
                    }
                }
                Stz::DefTag { query, name, mutable } if do_defs => {
                    for m in matches(query, "x", tree, source)? {
                        for n in m {
                            e.definitions += 1;
                            if *mutable {
                                if lazy {
                                    e.fails = true;
                                    e.why = "mutable scoped variables cannot be defined in lazy mode".into();
                                }
                                mutable_defs.insert((name.clone(), n.id()));
                            }
                            if tags.entry(name.clone()).or_default().insert(n.id(), tag_of(&n)).is_some() {
                                e.fails = true;
                                e.why = format!("{} defined twice on {}", name, tag_of(&n));
                            }
                        }
                    }
                }
                Stz::DefNull { query, name } if do_defs => {
                    for m in matches(query, "x", tree, source)? {
                        for n in m {
                            e.definitions += 1;
                            e.null_defs += 1;
                            if tags.entry(name.clone()).or_default().insert(n.id(), "#null".to_string()).is_some() {
                                e.fails = true;
                                e.why = format!("{} defined twice on {}", name, tag_of(&n));
                            }
                        }
                    }
                }
                Stz::DefCopy { query, name } if do_defs => {
                    let fs = matches(query, "f", tree, source)?;
                    let bs = matches(query, "b", tree, source)?;
                    for (f, b) in fs.iter().zip(bs.iter()) {
                        e.definitions += 1;
                        e.copy_defs += 1;
                        if lazy {
                            // resolved when forced: after every definition is known
                            if tags.get(name).map(|m| m.contains_key(&b[0].id())).unwrap_or(false) || copies.insert((name.clone(), b[0].id()), f[0]).is_some() {
                                e.fails = true;
                                e.why = format!("{} defined twice on {}", name, tag_of(&b[0]));
                            }
                            // placeholder so that duplicates and inherit walks see the definition
                            tags.entry(name.clone()).or_default().insert(b[0].id(), "\u{0}copy".to_string());
                        } else {
                            let v = {
                                let map = tags.get(name);
                                let mut found = map.and_then(|m| m.get(&f[0].id()).cloned());
                                if found.is_none() && s.inherits.iter().any(|i| i == name) {
                                    let mut p = f[0].parent();
                                    while let Some(a) = p {
                                        if let Some(t) = map.and_then(|m| m.get(&a.id())) {
                                            found = Some(t.clone());
                                            break;
                                        }
                                        p = a.parent();
                                    }
                                }
                                found
                            };
                            match v {
                                Some(v) => {
                                    if tags.entry(name.clone()).or_default().insert(b[0].id(), v).is_some() {
                                        e.fails = true;
                                        e.why = format!("{} defined twice on {}", name, tag_of(&b[0]));
                                    }
                                }
                                None => {
                                    e.fails = true;
                                    e.why = format!("{} undefined on {} when copied", name, tag_of(&f[0]));
                                }
                            }
                        }
                        if e.fails && !lazy {
                            break;
                        }
                    }
                }
                Stz::DefAlias { query, name } if do_defs => {
                    for m in matches(query, "x", tree, source)? {
                        for n in m {
                            e.definitions += 1;
                            e.noncapture_scope_defs += 1;
                            if tags.entry(name.clone()).or_default().insert(n.id(), tag_of(&n)).is_some() {
                                e.fails = true;
                                e.why = format!("{} defined twice on {}", name, tag_of(&n));
                            }
                        }
                    }
                }
                Stz::DefElems { query, name } if do_defs => {
                    for m in matches(query, "ys", tree, source)? {
                        for n in m {
                            e.definitions += 1;
                            e.noncapture_scope_defs += 1;
                            if tags.entry(name.clone()).or_default().insert(n.id(), tag_of(&n)).is_some() {
                                e.fails = true;
                                e.why = format!("{} defined twice on {}", name, tag_of(&n));
                            }
                        }
                    }
                }
                Stz::DefInLoop { query, name } if do_defs => {
                    let xs = matches(query, "x", tree, source)?;
                    let ys = matches(query, "ys", tree, source)?;
                    for (x, y) in xs.iter().zip(ys.iter()) {
                        for _ in y {
                            e.definitions += 1;
                            if tags.entry(name.clone()).or_default().insert(x[0].id(), tag_of(&x[0])).is_some() {
                                e.fails = true;
                                e.why = format!("{} defined twice on {}", name, tag_of(&x[0]));
                            }
                        }
                    }
                }
                Stz::DefLink { query, name } if do_defs => {
                    let cs = matches(query, "c", tree, source)?;
                    let fs = matches(query, "f", tree, source)?;
                    for (c, f) in cs.iter().zip(fs.iter()) {
                        e.definitions += 1;
                        if links.entry(name.clone()).or_default().insert(c[0].id(), f[0]).is_some() {
                            e.fails = true;
                            e.why = format!("{} defined twice on {}", name, tag_of(&c[0]));
                        }
                    }
                }
                Stz::ReadDirect { .. } | Stz::ReadList { .. } | Stz::ReadListComp { .. } | Stz::ReadChain { .. } if do_reads => {
                    let lookup = |name: &str, n: &Node, inherited_hits: &mut usize| -> Option<String> {
                        let map = tags.get(name)?;
                        if let Some(t) = map.get(&n.id()) {
                            return Some(t.clone());
                        }
                        if s.inherits.iter().any(|i| i == name) {
                            let mut p = n.parent();
                            while let Some(a) = p {
                                if let Some(t) = map.get(&a.id()) {
                                    *inherited_hits += 1;
                                    return Some(t.clone());
                                }
                                p = a.parent();
                            }
                        }
                        None
                    };
                    match st {
                        Stz::ReadDirect { query, name } => {
                            for m in matches(query, "y", tree, source)? {
                                let n = m[0];
                                e.reads += 1;
                                match lookup(name, &n, &mut e.inherited_reads) {
                                    Some(t) => e.rows.push((idx.to_string(), tag_of(&n), t)),
                                    None => {
                                        e.fails = true;
                                        e.why = format!("{} undefined on {}", name, tag_of(&n));
                                    }
                                }
                            }
                        }
                        Stz::ReadList { query, name } | Stz::ReadListComp { query, name } => {
                            for m in matches(query, "ys", tree, source)? {
                                for n in m {
                                    e.reads += 1;
                                    e.list_reads += 1;
                                    match lookup(name, &n, &mut e.inherited_reads) {
                                        Some(t) => e.rows.push((idx.to_string(), tag_of(&n), t)),
                                        None => {
                                            e.fails = true;
                                            e.why = format!("{} undefined on {}", name, tag_of(&n));
                                        }
                                    }
                                }
                            }
                        }
                        Stz::ReadChain { query, link, name } => {
                            for m in matches(query, "c", tree, source)? {
                                let c = m[0];
                                e.reads += 1;
                                e.chain_reads += 1;
                                let target = links.get(link).and_then(|l| l.get(&c.id())).cloned();
                                match target {
                                    None => {
                                        e.fails = true;
                                        e.why = format!("{} undefined on {}", link, tag_of(&c));
                                    }
                                    Some(t) => match lookup(name, &t, &mut e.inherited_reads) {
                                        Some(v) => e.rows.push((idx.to_string(), tag_of(&c), v)),
                                        None => {
                                            e.fails = true;
                                            e.why = format!("{} undefined on {}", name, tag_of(&t));
                                        }
                                    },
                                }
                            }
                        }
                        _ => {}
                    }
                }
                _ => {}
            }
        }
    }
    e.rows.sort();
    e.shared.sort();
    Ok(e)
}

#[derive(Clone, Debug)]
pub struct Case {
    pub text: String,
    pub source: String,
    pub lazy: bool,
    pub policy: Policy,
    pub hash_seed: u64,
    pub layout_seed: u64,
    pub order: Vec<usize>,
    schema: Option<Schema>,
    /// replay files carry the model verdict computed at discovery time for information only;
    /// the replay recomputes it
    pub schema_json: J,
}

fn schema_to_json(s: &Schema) -> J {
    let st: Vec<J> = s
        .stanzas
        .iter()
        .map(|x| match x {
            Stz::DefTag { query, name, mutable } => json!({"k": "deftag", "query": query, "name": name, "mutable": mutable}),
            Stz::Mutate { query, name } => json!({"k": "mutate", "query": query, "name": name}),
            Stz::DefNode { query, name } => json!({"k": "defnode", "query": query, "name": name}),
            Stz::DefAlias { query, name } => json!({"k": "defalias", "query": query, "name": name}),
            Stz::DefNull { query, name } => json!({"k": "defnull", "query": query, "name": name}),
            Stz::DefCopy { query, name } => json!({"k": "defcopy", "query": query, "name": name}),
            Stz::DefElems { query, name } => json!({"k": "defelems", "query": query, "name": name}),
            Stz::ReadNode { query, name } => json!({"k": "readnode", "query": query, "name": name}),
            Stz::DefLink { query, name } => json!({"k": "deflink", "query": query, "name": name}),
            Stz::DefInLoop { query, name } => json!({"k": "defloop", "query": query, "name": name}),
            Stz::ReadDirect { query, name } => json!({"k": "read", "query": query, "name": name}),
            Stz::ReadList { query, name } => json!({"k": "readlist", "query": query, "name": name}),
            Stz::ReadListComp { query, name } => json!({"k": "readlistcomp", "query": query, "name": name}),
            Stz::ReadChain { query, link, name } => {
                json!({"k": "readchain", "query": query, "link": link, "name": name})
            }
        })
        .collect();
    json!({"inherits": s.inherits, "stanzas": st, "short_reads": s.short_reads})
}

fn schema_from_json(j: &J) -> Schema {
    let g = |x: &J, k: &str| x[k].as_str().unwrap_or("").to_string();
    Schema {
        short_reads: j["short_reads"].as_bool().unwrap_or(false),
        inherits: j["inherits"]
            .as_array()
            .map(|a| a.iter().filter_map(|x| x.as_str().map(|s| s.to_string())).collect())
            .unwrap_or_default(),
        stanzas: j["stanzas"]
            .as_array()
            .map(|a| {
                a.iter()
                    .map(|x| match x["k"].as_str().unwrap_or("") {
                        "deftag" => Stz::DefTag { query: g(x, "query"), name: g(x, "name"), mutable: x["mutable"].as_bool().unwrap_or(false) },
                        "mutate" => Stz::Mutate { query: g(x, "query"), name: g(x, "name") },
                        "defnode" => Stz::DefNode { query: g(x, "query"), name: g(x, "name") },
                        "defalias" => Stz::DefAlias { query: g(x, "query"), name: g(x, "name") },
                        "defnull" => Stz::DefNull { query: g(x, "query"), name: g(x, "name") },
                        "defcopy" => Stz::DefCopy { query: g(x, "query"), name: g(x, "name") },
                        "defelems" => Stz::DefElems { query: g(x, "query"), name: g(x, "name") },
                        "readnode" => Stz::ReadNode { query: g(x, "query"), name: g(x, "name") },
                        "deflink" => Stz::DefLink { query: g(x, "query"), name: g(x, "name") },
                        "defloop" => Stz::DefInLoop { query: g(x, "query"), name: g(x, "name") },
                        "read" => Stz::ReadDirect { query: g(x, "query"), name: g(x, "name") },
                        "readlist" => Stz::ReadList { query: g(x, "query"), name: g(x, "name") },
                        "readlistcomp" => Stz::ReadListComp { query: g(x, "query"), name: g(x, "name") },
                        _ => Stz::ReadChain { query: g(x, "query"), link: g(x, "link"), name: g(x, "name") },
                    })
                    .collect()
            })
            .unwrap_or_default(),
    }
}

#[derive(Default)]
pub struct Stats {
    pub nodes: usize,
    pub collisions: usize,
    pub expected_fail: bool,
    pub definitions: usize,
    pub reads: usize,
    pub inherited_reads: usize,
    pub list_reads: usize,
    pub chain_reads: usize,
    pub mutations: usize,
    pub shared_reads: usize,
    pub zero_width_nodes: usize,
    pub noncapture_scope_defs: usize,
    pub null_defs: usize,
    pub copy_defs: usize,
    pub deep: bool,
    pub outcome: &'static str,
    pub leaked: i64,
    pub transcript: u64,
    pub discarded: Option<String>,
}

pub struct Found {
    pub class: &'static str,
    pub detail: String,
}

/// Executes one case on the current thread (layout policy already selected by the caller).
fn check_case(case: &Case) -> Result<(Stats, Option<Found>), String> {
    let mut st = Stats::default();
    let schema = match &case.schema {
        Some(s) => s.clone(),
        None => schema_from_json(&case.schema_json),
    };
    let tree = simrun::parse_python(&case.source);
    st.zero_width_nodes = alloc::all_nodes_zero_width(&tree);
    let (n, coll) = alloc::id_collisions(&tree);
    st.nodes = n;
    st.collisions = coll;
    let exp = model(&schema, &case.order, case.lazy, &tree, &case.source)?;
    st.expected_fail = exp.fails;
    st.definitions = exp.definitions;
    st.reads = exp.reads;
    st.inherited_reads = exp.inherited_reads;
    st.list_reads = exp.list_reads;
    st.chain_reads = exp.chain_reads;
    st.mutations = exp.mutations;
    st.shared_reads = exp.shared_reads;
    st.noncapture_scope_defs = exp.noncapture_scope_defs;
    st.null_defs = exp.null_defs;
    st.copy_defs = exp.copy_defs;
    let file = match simrun::load(&case.text) {
        Ok(f) => f,
        Err(e) => {
            // Every schema program is accepted by the unchanged loader.  A loader that refuses
            // one in which every read resolves makes a scoped variable invisible from some
            // expression that evaluates to its node.
            st.outcome = "rejected";
            if exp.fails {
                return Ok((st, None));
            }
            return Ok((st, Some(Found { class: "program-rejected", detail: format!("every read of this program resolves and nothing is defined twice, but the loader rejects it: {}", e) })));
        }
    };
    let fns = simrun::functions();
    let vars = simrun::make_variables(&Vec::new(), &[]);
    let out = simrun::execute(
        &file,
        &tree,
        &case.source,
        case.lazy,
        &fns,
        &vars,
        &tree_sitter_graph::NoCancellation,
    );
    st.outcome = out.class();
    st.transcript = rng::hash_str(&format!("{:?}", out));
    let found = match (&out, exp.fails) {
        (Outcome::Panic(m), _) => {
            // a panic in the fault-free control layout is C05's business
            if case.policy == Policy::Compact {
                st.discarded = Some(format!("control panic: {}", m));
                None
            } else {
                Some(Found { class: "panic-under-layout", detail: format!("layout {} panicked: {}", case.policy.name(), m) })
            }
        }
        (Outcome::Error(e), false) => Some(Found {
            class: "spurious-failure",
            detail: format!(
                "model: every read resolves and nothing is defined twice ({} definitions, {} reads, {} low-32 id collisions among {} nodes), but execution failed: {}",
                exp.definitions, exp.reads, coll, n, e.display
            ),
        }),
        (Outcome::Graph(_), true) => Some(Found {
            class: "missing-failure",
            detail: format!("model expects failure ({}), but execution succeeded", exp.why),
        }),
        (Outcome::Error(_), true) => None,
        (Outcome::Graph(g), false) => {
            let mut rows: Vec<(String, String, String)> = Vec::new();
            let mut shared: Vec<BTreeMap<String, String>> = Vec::new();
            let mut bad = None;
            for n in &g.nodes {
                let get = |k: &str| match n.attrs.get(k) {
                    Some(CVal::Str(s)) => Some(s.clone()),
                    Some(CVal::Null) => Some("#null".to_string()),
                    _ => None,
                };
                if !n.attrs.contains_key("rd") {
                    // a node created by a `(node)` definition and annotated by readers
                    let mut m = BTreeMap::new();
                    for (k, v) in &n.attrs {
                        match v {
                            CVal::Str(s) => {
                                m.insert(k.clone(), s.clone());
                            }
                            other => bad = Some(format!("shared node with unexpected attribute {} = {:?}", k, other)),
                        }
                    }
                    shared.push(m);
                    continue;
                }
                match (get("rd"), get("self"), get("got")) {
                    (Some(a), Some(b), Some(c)) => rows.push((a, b, c)),
                    _ => bad = Some(format!("reader node with unexpected attributes: {:?}", n.attrs)),
                }
            }
            rows.sort();
            shared.sort();
            if let Some(b) = bad {
                Some(Found { class: "wrong-value", detail: b })
            } else if shared != exp.shared {
                Some(Found {
                    class: "shared-node-differs",
                    detail: format!(
                        "layout {}: the graph nodes held by scoped variables differ from the model: {} nodes with attribute maps {:?}..., expected {} with {:?}...",
                        case.policy.name(), shared.len(), shared.iter().take(2).collect::<Vec<_>>(), exp.shared.len(), exp.shared.iter().take(2).collect::<Vec<_>>()
                    ),
                })
            } else if rows != exp.rows {
                let diff = rows
                    .iter()
                    .zip(exp.rows.iter())
                    .find(|(a, b)| a != b)
                    .map(|(a, b)| format!("got (reader {}, self {}, value {}) expected (reader {}, self {}, value {})", a.0, a.1, a.2, b.0, b.1, b.2))
                    .unwrap_or_else(|| format!("{} reader nodes, model expects {}", rows.len(), exp.rows.len()));
                Some(Found { class: "wrong-value", detail: format!("layout {}: {}", case.policy.name(), diff) })
            } else {
                None
            }
        }
    };
    Ok((st, found))
}

fn run_on_thread(case: &Case) -> Result<(Stats, Option<Found>), String> {
    let leaked = alloc::begin_run(case.policy, case.layout_seed);
    let c = case.clone();
    let r = entropy::with_hash_seed(case.hash_seed, move || check_case(&c))?;
    r.map(|(mut st, f)| {
        st.leaked = leaked;
        (st, f)
    })
}

pub fn make_case(ctx: &ShardCtx, i: u64) -> Case {
    let seed = ctx.run_seed(i);
    let mut r = Rng::sub(seed, "plan");
    let lazy = r.chance(1, 2);
    let policy = Policy::ALL[r.weighted(&[2, 2, 2, 4, 2, 1])];
    let schema = gen_schema(&mut Rng::sub(seed, "schema"), lazy);
    let mut order: Vec<usize> = (0..schema.stanzas.len()).collect();
    let interleave = r.chance(1, 2);
    if interleave {
        // any order: in strict mode a read sees only what earlier stanzas defined
        r.shuffle(&mut order);
        if !lazy {
            // keep one definer in front so that most reads still resolve
            if let Some(p) = order.iter().position(|i| matches!(schema.stanzas[*i], Stz::DefTag { .. })) {
                let d = order.remove(p);
                order.insert(0, d);
            }
        }
    } else {
        // strict needs definers first
        order.sort_by_key(|i| match schema.stanzas[*i] {
            Stz::DefTag { .. } | Stz::DefLink { .. } | Stz::DefInLoop { .. } | Stz::DefNode { .. } | Stz::DefAlias { .. } | Stz::DefElems { .. } | Stz::DefNull { .. } => 0,
            Stz::DefCopy { .. } => 1,
            Stz::Mutate { .. } => 1,
            _ => 2,
        });
    }
    let scfg = pysrc::SrcCfg {
        min_stmts: 2,
        max_stmts: if ctx.tier == Tier::Quick { 30 } else { 120 },
        empty_blocks: r.chance(1, 2),
        syntax_errors: if r.chance(1, 6) { 1 } else { 0 },
        ..Default::default()
    };
    let mut source = pysrc::gen_source(&mut Rng::sub(seed, "src"), &scfg);
    let mut schema = schema;
    let mut order = order;
    if r.chance(1, 50) {
        // the nearest definer is several hundred levels above the reader
        let depth = r.range(257, 400);
        source = format!("deep = {}1{}\n", "(".repeat(depth), ")".repeat(depth));
        schema = Schema {
            inherits: vec!["tag".into()],
            stanzas: vec![
                Stz::DefTag { query: "(module) @x".into(), name: "tag".into(), mutable: false },
                Stz::ReadDirect { query: "(integer) @y".into(), name: "tag".into() },
                Stz::ReadDirect { query: "(assignment) @y".into(), name: "tag".into() },
            ],
            short_reads: false,
        };
        order = vec![0, 1, 2];
    }
    Case {
        text: render(&schema, &order),
        order: order.clone(),
        source,
        lazy,
        policy,
        hash_seed: rng::mix(seed, 0xc04),
        layout_seed: rng::mix(seed, 0x1a7),
        schema_json: schema_to_json(&schema),
        schema: Some(schema),
    }
}

fn case_json(c: &Case) -> J {
    json!({
        "tsg": c.text,
        "source": c.source,
        "lazy": c.lazy,
        "layout": c.policy.name(),
        "hash_seed": c.hash_seed,
        "layout_seed": c.layout_seed,
        "order": c.order,
        "schema": c.schema_json,
    })
}

fn case_from_json(j: &J) -> Case {
    Case {
        text: j["tsg"].as_str().unwrap_or("").to_string(),
        source: j["source"].as_str().unwrap_or("").to_string(),
        lazy: j["lazy"].as_bool().unwrap_or(false),
        policy: Policy::parse(j["layout"].as_str().unwrap_or("compact")).unwrap_or(Policy::Compact),
        hash_seed: j["hash_seed"].as_u64().unwrap_or(0),
        layout_seed: j["layout_seed"].as_u64().unwrap_or(0),
        order: j["order"].as_array().map(|a| a.iter().map(|x| x.as_u64().unwrap_or(0) as usize).collect()).unwrap_or_default(),
        schema: None,
        schema_json: j["schema"].clone(),
    }
}

fn minimise(case: &Case, f: Found) -> (Case, Found) {
    let mut best = case.clone();
    let mut bestf = f;
    // does the layout matter?  If the control layout fails the same way, report that.
    if best.policy != Policy::Compact {
        let mut c = best.clone();
        c.policy = Policy::Compact;
        if let Ok((_, Some(f2))) = run_on_thread(&c) {
            if f2.class == bestf.class {
                best = c;
                bestf = f2;
            }
        }
    }
    let mut budget = 120;
    let mut progress = true;
    while progress && budget > 0 {
        progress = false;
        let lines: Vec<&str> = best.source.lines().collect();
        if lines.len() <= 1 {
            break;
        }
        // try dropping halves first, then single lines
        let mut chunks: Vec<(usize, usize)> = Vec::new();
        let h = lines.len() / 2;
        if h >= 2 {
            chunks.push((0, h));
            chunks.push((h, lines.len()));
        }
        for i in 0..lines.len() {
            chunks.push((i, i + 1));
        }
        for (a, b) in chunks {
            if budget == 0 {
                break;
            }
            budget -= 1;
            let l2: Vec<&str> = lines
                .iter()
                .enumerate()
                .filter(|(i, _)| *i < a || *i >= b)
                .map(|(_, l)| *l)
                .collect();
            if l2.is_empty() {
                continue;
            }
            let mut c = best.clone();
            c.source = l2.join("\n") + "\n";
            if let Ok((_, Some(f2))) = run_on_thread(&c) {
                if f2.class == bestf.class {
                    best = c;
                    bestf = f2;
                    progress = true;
                    break;
                }
            }
        }
    }
    (best, bestf)
}

pub fn run_shard(ctx: &ShardCtx, rep: &mut Report) {
    alloc::install();
    let total: u64 = match ctx.tier {
        Tier::Quick => ctx.scaled(8000) as u64,
        Tier::Thorough => ctx.scaled(400_000) as u64,
    };
    let mut minimised: std::collections::BTreeSet<String> = Default::default();
    for i in 0..total {
        if ctx.past_end(i) {
            break;
        }
        if !ctx.mine(i) {
            continue;
        }
        rep.current_run = i;
        let case = make_case(ctx, i);
        let (st, found) = match run_on_thread(&case) {
            Ok(x) => x,
            Err(m) => {
                rep.harness_error(format!("C04 run {}: {}", i, m));
                continue;
            }
        };
        rep.count("runs");
        rep.evaluations += 1;
        rep.steps += (st.definitions + st.reads) as u64;
        rep.count("fault.layout.configured");
        if case.policy != Policy::Compact {
            rep.count("fault.layout.fired");
        }
        rep.count("fault.hash_keys.configured");
        rep.count("fault.hash_keys.fired");
        rep.count(&format!("probe.layout.{}", case.policy.name()));
        rep.count(&format!("mode.{}", if case.lazy { "lazy" } else { "strict" }));
        if st.collisions > 0 {
            rep.count("probe.tree_with_low32_id_collision");
            rep.add("id_collisions_total", st.collisions as u64);
        }
        if st.leaked != 0 {
            rep.add("leaked_blocks", st.leaked.unsigned_abs());
        }
        if let Some(d) = &st.discarded {
            rep.count("discarded.control_panic");
            let _ = d;
            continue;
        }
        rep.add("probe.inherited_read_resolved_by_ancestor", st.inherited_reads as u64);
        rep.add("probe.read_through_list_element", st.list_reads as u64);
        rep.add("probe.read_through_chain", st.chain_reads as u64);
        if !st.expected_fail {
            rep.add("probe.mutable_variable_reassigned", st.mutations as u64);
            rep.add("probe.effectful_value_read_again", st.shared_reads as u64);
        }
        rep.add("probe.definition_through_local_or_loop_scope", st.noncapture_scope_defs as u64);
        if !st.expected_fail {
            rep.add("probe.null_valued_definition", st.null_defs as u64);
            rep.add("probe.value_copied_from_another_node", st.copy_defs as u64);
        }
        if case.source.starts_with("deep = ") && !st.expected_fail {
            rep.count("probe.ancestor_more_than_256_levels_up");
        }
        if st.zero_width_nodes > 0 && st.inherited_reads > 0 {
            rep.count("probe.tree_with_zero_width_node_and_inherit");
        }
        let defs_first = case.order.iter().map(|i| match case_stanza_is_def(&case, *i) { true => 0, false => 1 }).collect::<Vec<_>>();
        if !case.lazy && defs_first.windows(2).any(|w| w[0] > w[1]) && !st.expected_fail && st.inherited_reads > 0 {
            rep.count("probe.strict_read_between_definitions");
        }
        if st.expected_fail {
            rep.count("probe.model_expects_failure");
        } else {
            rep.count("model_expects_success");
        }
        rep.count(&format!("outcome.{}", st.outcome));
        rep.add("syntax_nodes_total", st.nodes as u64);
        rep.run_hashes.push((i, st.transcript));
        if st.definitions > 0 && st.reads > 0 {
            rep.distinct(
                "cases",
                rng::hash_str(&format!("{}\u{0}{}\u{0}{}\u{0}{}", case.text, case.source, case.lazy, case.policy.name())),
            );
        }
        rep.sample(3, || {
            json!({
                "mode": if case.lazy { "lazy" } else { "strict" },
                "layout": case.policy.name(),
                "tsg": case.text,
                "source": case.source,
                "syntax_nodes": st.nodes,
                "low32_id_collisions": st.collisions,
                "definitions": st.definitions,
                "reads": st.reads,
                "model_expects": if st.expected_fail { "failure" } else { "success" },
                "outcome": st.outcome,
            })
        });
        if let Some(f) = found {
            rep.count("violating_cases");
            let sig = signature(&case, &f);
            if minimised.insert(sig) {
                let (c2, f2) = minimise(&case, f);
                rep.violation(Violation {
                    class: f2.class.to_string(),
                    signature: signature(&c2, &f2),
                    summary: format!(
                        "[{} layout={}] {}",
                        if c2.lazy { "lazy" } else { "strict" },
                        c2.policy.name(),
                        f2.detail
                    ),
                    scenario: case_json(&c2),
                });
            }
        }
    }
}

fn case_stanza_is_def(c: &Case, i: usize) -> bool {
    c.schema
        .as_ref()
        .map(|s| matches!(s.stanzas[i], Stz::DefTag { .. } | Stz::DefLink { .. } | Stz::DefInLoop { .. } | Stz::DefNode { .. } | Stz::DefAlias { .. } | Stz::DefElems { .. } | Stz::DefNull { .. } | Stz::DefCopy { .. }))
        .unwrap_or(false)
}

fn signature(c: &Case, f: &Found) -> String {
    format!("{} layout={}", f.class, c.policy.name())
}

pub fn replay(sc: &J) -> Result<Option<(String, String)>, String> {
    alloc::install();
    let case = case_from_json(sc);
    let (_, f) = run_on_thread(&case)?;
    Ok(f.map(|f| (f.class.to_string(), f.detail)))
}
