//! Seeded generator of small Python modules (the "inputs" every workload runs on).

use crate::rng::Rng;

const IDENTS: &[&str] = &[
    "a", "b", "c", "x", "y", "foo", "bar", "baz", "qux", "n", "self", "item", "värde", "名前",
];
const FUNCS: &[&str] = &["f", "g", "h", "print", "len", "run", "make"];
const MODS: &[&str] = &["os", "sys", "one.two", "a.b.c", "json"];

#[derive(Clone, Debug)]
pub struct SrcCfg {
    pub min_stmts: usize,
    pub max_stmts: usize,
    pub allow_nested: bool,
    pub non_ascii: bool,
    pub syntax_errors: usize,
    /// compound statements whose body is not indented: tree-sitter-python gives them a
    /// zero-width `block` node (and no ERROR node)
    pub empty_blocks: bool,
}

impl Default for SrcCfg {
    fn default() -> Self {
        SrcCfg {
            min_stmts: 1,
            max_stmts: 8,
            allow_nested: true,
            non_ascii: true,
            syntax_errors: 0,
            empty_blocks: false,
        }
    }
}

fn ident(r: &mut Rng, cfg: &SrcCfg) -> &'static str {
    loop {
        let i = *r.pick(IDENTS);
        if cfg.non_ascii || i.is_ascii() {
            return i;
        }
    }
}

fn expr(r: &mut Rng, cfg: &SrcCfg, depth: usize) -> String {
    let w = if depth >= 2 {
        r.below(4)
    } else {
        r.below(9)
    };
    match w {
        0 => ident(r, cfg).to_string(),
        1 => format!("{}", r.below(100)),
        2 => {
            if cfg.non_ascii && r.chance(1, 3) {
                "\"héllo wörld\"".to_string()
            } else {
                format!("\"s{}\"", r.below(10))
            }
        }
        3 => ident(r, cfg).to_string(),
        4 => {
            let n = r.below(5);
            let args: Vec<String> = (0..n).map(|_| expr(r, cfg, depth + 1)).collect();
            format!("{}({})", r.pick(FUNCS), args.join(", "))
        }
        5 => format!(
            "{} + {}",
            expr(r, cfg, depth + 1),
            expr(r, cfg, depth + 1)
        ),
        6 => format!("{}.{}", ident(r, cfg), r.pick(FUNCS)),
        7 => format!("({})", expr(r, cfg, depth + 1)),
        _ => {
            let n = r.below(4);
            let args: Vec<String> = (0..n).map(|_| expr(r, cfg, depth + 1)).collect();
            format!("[{}]", args.join(", "))
        }
    }
}

fn stmt(r: &mut Rng, cfg: &SrcCfg, indent: usize, depth: usize, out: &mut Vec<String>) {
    let pad = "    ".repeat(indent);
    let w = if depth >= 2 || !cfg.allow_nested {
        r.below(6)
    } else {
        r.below(10)
    };
    if cfg.empty_blocks && r.chance(1, 12) {
        let head = match r.below(3) {
            0 => format!("def {}():", r.pick(FUNCS)),
            1 => format!("if {}:", ident(r, cfg)),
            _ => format!("for {} in {}:", ident(r, cfg), ident(r, cfg)),
        };
        out.push(format!("{}{}", pad, head));
        out.push(format!("{}{} = {}", pad, ident(r, cfg), r.below(9)));
        return;
    }
    match w {
        0 => out.push(format!("{}pass", pad)),
        1 | 2 => out.push(format!("{}{} = {}", pad, ident(r, cfg), expr(r, cfg, 0))),
        3 => out.push(format!("{}{}", pad, expr(r, cfg, 0))),
        4 => out.push(format!("{}import {}", pad, r.pick(MODS))),
        5 => {
            let n = r.below(4);
            let args: Vec<String> = (0..n).map(|_| expr(r, cfg, 1)).collect();
            out.push(format!("{}{}({})", pad, r.pick(FUNCS), args.join(", ")))
        }
        6 => {
            let n = r.below(3);
            let ps: Vec<&str> = (0..n).map(|_| ident(r, cfg)).collect();
            let mut ps2: Vec<&str> = Vec::new();
            for p in ps {
                if !ps2.contains(&p) {
                    ps2.push(p)
                }
            }
            out.push(format!("{}def {}({}):", pad, r.pick(FUNCS), ps2.join(", ")));
            let k = r.range(1, 3);
            for _ in 0..k {
                stmt(r, cfg, indent + 1, depth + 1, out);
            }
            if r.chance(1, 2) {
                out.push(format!(
                    "{}return {}",
                    "    ".repeat(indent + 1),
                    expr(r, cfg, 1)
                ));
            }
        }
        7 => {
            out.push(format!("{}class {}:", pad, r.pick(&["K", "Node", "T"])));
            let k = r.range(1, 2);
            for _ in 0..k {
                stmt(r, cfg, indent + 1, depth + 1, out);
            }
        }
        8 => {
            out.push(format!("{}if {}:", pad, expr(r, cfg, 1)));
            let k = r.range(1, 2);
            for _ in 0..k {
                stmt(r, cfg, indent + 1, depth + 1, out);
            }
        }
        _ => {
            if indent > 0 {
                out.push(format!("{}return", pad))
            } else {
                out.push(format!("{}pass", pad))
            }
        }
    }
}

pub fn gen_source(r: &mut Rng, cfg: &SrcCfg) -> String {
    let n = r.range(cfg.min_stmts, cfg.max_stmts);
    let mut lines = Vec::new();
    for _ in 0..n {
        stmt(r, cfg, 0, 0, &mut lines);
    }
    for _ in 0..cfg.syntax_errors {
        let i = r.below(lines.len().max(1));
        // ERROR-node faults and MISSING-token-only faults (the latter leave no ERROR node)
        let bad = if r.chance(1, 3) {
            *r.pick(&["def f(:\n    pass", "def zz(:\n    x = 1\n    return x"])
        } else {
            *r.pick(&["x = = 1", "def (:", "foo(1,, 2", ") + (", "class :"])
        };
        // keep indentation of the displaced line so the damage stays local
        let pad: String = if i < lines.len() {
            lines[i].chars().take_while(|c| *c == ' ').collect()
        } else {
            String::new()
        };
        let at = i.min(lines.len());
        for (k, l) in bad.lines().enumerate() {
            lines.insert(at + k, format!("{}{}", pad, l));
        }
    }
    let mut s = lines.join("\n");
    s.push('\n');
    s
}

/// `n` `pass` statements: a source with an exactly known number of matches.
pub fn passes(n: usize) -> String {
    "pass\n".repeat(n)
}

/// A fixed corpus used alongside generated sources.
pub fn corpus() -> Vec<&'static str> {
    vec![
        "pass\n",
        "from one.two import d, e.c\nimport three\nprint(d, e.c)\nprint(three.f)\n",
        "def f(a, b):\n    x = a + b\n    return g(x, 1)\n\nclass K:\n    def m(self):\n        pass\n",
        "x = 1\ny = x\nz = f(x, y, g(h(1)))\n",
        "a = (((b)))\nfoo(bar(baz(qux)))\n",
    ]
}
