//! Harness-side representation of DSL programs (so they can be generated, shrunk, permuted
//! and re-rendered) and the typed, seeded program generator shared by all checks.

use std::collections::BTreeMap;
use std::collections::BTreeSet;

use crate::rng::Rng;

// ---------------------------------------------------------------------------------------------
// Program tree

#[derive(Clone, Debug, PartialEq, Eq)]
pub enum Expr {
    Null,
    True,
    False,
    Int(u32),
    Str(String),
    List(Vec<Expr>),
    Set(Vec<Expr>),
    ListComp(Box<Expr>, String, Box<Expr>),
    SetComp(Box<Expr>, String, Box<Expr>),
    Cap(String),
    Var(String),
    Scoped(Box<Expr>, String),
    Call(String, Vec<Expr>),
    ReCap(usize),
}

#[derive(Clone, Debug, PartialEq, Eq)]
pub enum VarRef {
    Local(String),
    Scoped(Expr, String),
}

#[derive(Clone, Debug, PartialEq, Eq)]
pub enum Cond {
    Some(Expr),
    None(Expr),
    Bool(Expr),
}

#[derive(Clone, Debug, PartialEq, Eq)]
pub struct IfArm {
    /// empty = `else`
    pub conds: Vec<Cond>,
    pub body: Vec<Stmt>,
}

#[derive(Clone, Debug, PartialEq, Eq)]
pub enum Stmt {
    Node(VarRef),
    Let(VarRef, Expr),
    VarDecl(VarRef, Expr),
    Set(VarRef, Expr),
    Edge(Expr, Expr),
    AttrNode(Expr, Vec<(String, Expr)>),
    AttrEdge(Expr, Expr, Vec<(String, Expr)>),
    If(Vec<IfArm>),
    For(String, Expr, Vec<Stmt>),
    Scan(Expr, Vec<(String, Vec<Stmt>)>),
    Print(Vec<Expr>),
}

#[derive(Clone, Debug, PartialEq, Eq)]
pub struct Stanza {
    pub query: String,
    pub stmts: Vec<Stmt>,
}

#[derive(Clone, Debug, PartialEq, Eq)]
pub struct GlobalDecl {
    pub name: String,
    pub quant: &'static str,
    pub default: Option<String>,
}

#[derive(Clone, Debug, PartialEq, Eq)]
pub struct Shorthand {
    pub name: String,
    pub var: String,
    pub attrs: Vec<(String, Expr)>,
}

#[derive(Clone, Debug, PartialEq, Eq, Default)]
pub struct Prog {
    pub globals: Vec<GlobalDecl>,
    pub inherits: Vec<String>,
    pub shorthands: Vec<Shorthand>,
    pub stanzas: Vec<Stanza>,
}

// ---------------------------------------------------------------------------------------------
// Rendering

pub fn esc(s: &str) -> String {
    let mut o = String::new();
    for c in s.chars() {
        match c {
            '"' => o.push_str("\\\""),
            '\\' => o.push_str("\\\\"),
            '\n' => o.push_str("\\n"),
            '\r' => o.push_str("\\r"),
            '\t' => o.push_str("\\t"),
            '\0' => o.push_str("\\0"),
            c => o.push(c),
        }
    }
    o
}

impl Expr {
    pub fn render(&self) -> String {
        match self {
            Expr::Null => "#null".into(),
            Expr::True => "#true".into(),
            Expr::False => "#false".into(),
            Expr::Int(i) => format!("{}", i),
            Expr::Str(s) => format!("\"{}\"", esc(s)),
            Expr::List(l) => format!(
                "[{}]",
                l.iter().map(|e| e.render()).collect::<Vec<_>>().join(", ")
            ),
            Expr::Set(l) => format!(
                "{{{}}}",
                l.iter().map(|e| e.render()).collect::<Vec<_>>().join(", ")
            ),
            Expr::ListComp(e, v, src) => format!("[ {} for {} in {} ]", e.render(), v, src.render()),
            Expr::SetComp(e, v, src) => format!("{{ {} for {} in {} }}", e.render(), v, src.render()),
            Expr::Cap(c) => format!("@{}", c),
            Expr::Var(v) => v.clone(),
            Expr::Scoped(s, n) => format!("{}.{}", s.render(), n),
            Expr::Call(f, ps) => {
                let mut s = format!("({}", f);
                for p in ps {
                    s.push(' ');
                    s.push_str(&p.render());
                }
                s.push(')');
                s
            }
            Expr::ReCap(n) => format!("${}", n),
        }
    }
}

impl VarRef {
    pub fn render(&self) -> String {
        match self {
            VarRef::Local(n) => n.clone(),
            VarRef::Scoped(e, n) => format!("{}.{}", e.render(), n),
        }
    }
}

fn render_attrs(a: &[(String, Expr)]) -> String {
    a.iter()
        .map(|(k, v)| format!("{} = {}", k, v.render()))
        .collect::<Vec<_>>()
        .join(", ")
}

impl Cond {
    pub fn render(&self) -> String {
        match self {
            Cond::Some(e) => format!("some {}", e.render()),
            Cond::None(e) => format!("none {}", e.render()),
            Cond::Bool(e) => e.render(),
        }
    }
}

fn render_block(stmts: &[Stmt], ind: usize, out: &mut String) {
    for s in stmts {
        s.render_into(ind, out);
    }
}

impl Stmt {
    pub fn render_into(&self, ind: usize, out: &mut String) {
        let pad = "  ".repeat(ind);
        match self {
            Stmt::Node(v) => out.push_str(&format!("{}node {}\n", pad, v.render())),
            Stmt::Let(v, e) => out.push_str(&format!("{}let {} = {}\n", pad, v.render(), e.render())),
            Stmt::VarDecl(v, e) => {
                out.push_str(&format!("{}var {} = {}\n", pad, v.render(), e.render()))
            }
            Stmt::Set(v, e) => out.push_str(&format!("{}set {} = {}\n", pad, v.render(), e.render())),
            Stmt::Edge(a, b) => {
                out.push_str(&format!("{}edge {} -> {}\n", pad, a.render(), b.render()))
            }
            Stmt::AttrNode(n, a) => {
                out.push_str(&format!("{}attr ({}) {}\n", pad, n.render(), render_attrs(a)))
            }
            Stmt::AttrEdge(a, b, at) => out.push_str(&format!(
                "{}attr ({} -> {}) {}\n",
                pad,
                a.render(),
                b.render(),
                render_attrs(at)
            )),
            Stmt::If(arms) => {
                for (i, arm) in arms.iter().enumerate() {
                    let conds = arm
                        .conds
                        .iter()
                        .map(|c| c.render())
                        .collect::<Vec<_>>()
                        .join(", ");
                    if i == 0 {
                        out.push_str(&format!("{}if {} {{\n", pad, conds));
                    } else if arm.conds.is_empty() {
                        out.push_str(&format!("{}}} else {{\n", pad));
                    } else {
                        out.push_str(&format!("{}}} elif {} {{\n", pad, conds));
                    }
                    render_block(&arm.body, ind + 1, out);
                }
                out.push_str(&format!("{}}}\n", pad));
            }
            Stmt::For(v, e, body) => {
                out.push_str(&format!("{}for {} in {} {{\n", pad, v, e.render()));
                render_block(body, ind + 1, out);
                out.push_str(&format!("{}}}\n", pad));
            }
            Stmt::Scan(e, arms) => {
                out.push_str(&format!("{}scan {} {{\n", pad, e.render()));
                for (re, body) in arms {
                    out.push_str(&format!("{}  \"{}\" {{\n", pad, esc(re)));
                    render_block(body, ind + 2, out);
                    out.push_str(&format!("{}  }}\n", pad));
                }
                out.push_str(&format!("{}}}\n", pad));
            }
            Stmt::Print(es) => out.push_str(&format!(
                "{}print {}\n",
                pad,
                es.iter().map(|e| e.render()).collect::<Vec<_>>().join(", ")
            )),
        }
    }
}

impl Stanza {
    pub fn render(&self) -> String {
        let mut out = String::new();
        out.push_str(&self.query);
        out.push_str("\n{\n");
        render_block(&self.stmts, 1, &mut out);
        out.push_str("}\n");
        out
    }
}

impl Prog {
    pub fn render(&self) -> String {
        let mut out = String::new();
        for g in &self.globals {
            match &g.default {
                Some(d) => out.push_str(&format!("global {}{} = \"{}\"\n", g.name, g.quant, esc(d))),
                None => out.push_str(&format!("global {}{}\n", g.name, g.quant)),
            }
        }
        for i in &self.inherits {
            out.push_str(&format!("inherit .{}\n", i));
        }
        for s in &self.shorthands {
            out.push_str(&format!(
                "attribute {} = {} => {}\n",
                s.name,
                s.var,
                render_attrs(&s.attrs)
            ));
        }
        if !out.is_empty() {
            out.push('\n');
        }
        for st in &self.stanzas {
            out.push_str(&st.render());
            out.push('\n');
        }
        out
    }

    pub fn permuted(&self, perm: &[usize]) -> Prog {
        let mut p = self.clone();
        p.stanzas = perm.iter().map(|i| self.stanzas[*i].clone()).collect();
        p
    }

    pub fn stmt_count(&self) -> usize {
        fn c(s: &[Stmt]) -> usize {
            s.iter()
                .map(|x| {
                    1 + match x {
                        Stmt::If(arms) => arms.iter().map(|a| c(&a.body)).sum(),
                        Stmt::For(_, _, b) => c(b),
                        Stmt::Scan(_, arms) => arms.iter().map(|a| c(&a.1)).sum(),
                        _ => 0,
                    }
                })
                .sum()
        }
        self.stanzas.iter().map(|s| c(&s.stmts)).sum()
    }

    /// A coarse structural signature: which statement/expression kinds occur.
    pub fn shape(&self) -> String {
        let mut kinds: BTreeSet<&'static str> = BTreeSet::new();
        fn ex(e: &Expr, k: &mut BTreeSet<&'static str>) {
            match e {
                Expr::List(l) | Expr::Set(l) => {
                    k.insert("coll");
                    l.iter().for_each(|x| ex(x, k))
                }
                Expr::ListComp(a, _, b) | Expr::SetComp(a, _, b) => {
                    k.insert("comp");
                    ex(a, k);
                    ex(b, k)
                }
                Expr::Scoped(s, _) => {
                    k.insert("scoped");
                    ex(s, k)
                }
                Expr::Call(f, ps) => {
                    k.insert(if f == "tick" { "tick" } else { "call" });
                    ps.iter().for_each(|x| ex(x, k))
                }
                Expr::ReCap(_) => {
                    k.insert("recap");
                }
                _ => {}
            }
        }
        fn st(s: &[Stmt], k: &mut BTreeSet<&'static str>) {
            for x in s {
                match x {
                    Stmt::Node(_) => {
                        k.insert("node");
                    }
                    Stmt::Let(_, e) => {
                        k.insert("let");
                        ex(e, k)
                    }
                    Stmt::VarDecl(_, e) => {
                        k.insert("var");
                        ex(e, k)
                    }
                    Stmt::Set(_, e) => {
                        k.insert("set");
                        ex(e, k)
                    }
                    Stmt::Edge(a, b) => {
                        k.insert("edge");
                        ex(a, k);
                        ex(b, k)
                    }
                    Stmt::AttrNode(n, a) => {
                        k.insert("attr");
                        ex(n, k);
                        a.iter().for_each(|x| ex(&x.1, k))
                    }
                    Stmt::AttrEdge(a, b, at) => {
                        k.insert("eattr");
                        ex(a, k);
                        ex(b, k);
                        at.iter().for_each(|x| ex(&x.1, k))
                    }
                    Stmt::If(arms) => {
                        k.insert("if");
                        arms.iter().for_each(|a| st(&a.body, k))
                    }
                    Stmt::For(_, e, b) => {
                        k.insert("for");
                        ex(e, k);
                        st(b, k)
                    }
                    Stmt::Scan(e, arms) => {
                        k.insert("scan");
                        ex(e, k);
                        arms.iter().for_each(|a| st(&a.1, k))
                    }
                    Stmt::Print(_) => {
                        k.insert("print");
                    }
                }
            }
        }
        for s in &self.stanzas {
            st(&s.stmts, &mut kinds);
        }
        format!(
            "s{}g{}i{}h{}:{}",
            self.stanzas.len(),
            self.globals.len(),
            self.inherits.len(),
            self.shorthands.len(),
            kinds.into_iter().collect::<Vec<_>>().join("+")
        )
    }
}

// ---------------------------------------------------------------------------------------------
// Query shapes over the Python grammar

#[derive(Clone, Copy, Debug, PartialEq, Eq)]
pub enum Q {
    One,
    Opt,
    List,
}

#[derive(Clone, Debug)]
pub struct QShape {
    pub text: &'static str,
    /// (capture name, node kind or "*" when unknown, quantifier)
    pub caps: &'static [(&'static str, &'static str, Q)],
    /// The root kind when every node of that kind matches exactly once and the first capture
    /// is that root (safe place to define a scoped variable on).
    pub root_all: Option<&'static str>,
}

pub const SHAPES: &[QShape] = &[
    QShape { text: "(module) @m", caps: &[("m", "module", Q::One)], root_all: Some("module") },
    QShape { text: "(identifier) @id", caps: &[("id", "identifier", Q::One)], root_all: Some("identifier") },
    QShape { text: "(call) @c", caps: &[("c", "call", Q::One)], root_all: Some("call") },
    QShape { text: "(assignment) @a", caps: &[("a", "assignment", Q::One)], root_all: Some("assignment") },
    QShape { text: "(function_definition) @fn", caps: &[("fn", "function_definition", Q::One)], root_all: Some("function_definition") },
    QShape { text: "(pass_statement) @p", caps: &[("p", "pass_statement", Q::One)], root_all: Some("pass_statement") },
    QShape { text: "(integer) @i", caps: &[("i", "integer", Q::One)], root_all: Some("integer") },
    QShape { text: "(string) @s", caps: &[("s", "string", Q::One)], root_all: Some("string") },
    QShape { text: "(call function: (identifier) @f) @c", caps: &[("c", "call", Q::One), ("f", "identifier", Q::One)], root_all: None },
    QShape { text: "(call function: (_) @f arguments: (argument_list (_)* @args)) @c", caps: &[("c", "call", Q::One), ("f", "*", Q::One), ("args", "*", Q::List)], root_all: Some("call") },
    QShape { text: "(assignment left: (identifier) @l right: (_) @r) @a", caps: &[("a", "assignment", Q::One), ("l", "identifier", Q::One), ("r", "*", Q::One)], root_all: None },
    QShape { text: "(assignment left: (_) @l right: (_)? @r)", caps: &[("l", "*", Q::One), ("r", "*", Q::Opt)], root_all: None },
    QShape { text: "(function_definition name: (identifier) @n) @fn", caps: &[("fn", "function_definition", Q::One), ("n", "identifier", Q::One)], root_all: Some("function_definition") },
    QShape { text: "(function_definition name: (identifier) @n body: (block (_)+ @body)) @fn", caps: &[("fn", "function_definition", Q::One), ("n", "identifier", Q::One), ("body", "*", Q::List)], root_all: Some("function_definition") },
    QShape { text: "(function_definition parameters: (parameters (identifier)* @ps)) @fn", caps: &[("fn", "function_definition", Q::One), ("ps", "identifier", Q::List)], root_all: Some("function_definition") },
    QShape { text: "(expression_statement (_) @e) @st", caps: &[("st", "expression_statement", Q::One), ("e", "*", Q::One)], root_all: None },
    QShape { text: "(binary_operator left: (_) @l right: (_) @r) @b", caps: &[("b", "binary_operator", Q::One), ("l", "*", Q::One), ("r", "*", Q::One)], root_all: Some("binary_operator") },
    QShape { text: "(return_statement (_)? @v) @ret", caps: &[("ret", "return_statement", Q::One), ("v", "*", Q::Opt)], root_all: Some("return_statement") },
    QShape { text: "(import_statement name: (dotted_name (identifier) @n))", caps: &[("n", "identifier", Q::One)], root_all: None },
    QShape { text: "[(integer) (string)] @lit", caps: &[("lit", "*", Q::One)], root_all: None },
    QShape { text: "(class_definition name: (identifier) @n body: (block) @b) @cls", caps: &[("cls", "class_definition", Q::One), ("n", "identifier", Q::One), ("b", "block", Q::One)], root_all: Some("class_definition") },
    QShape { text: "((identifier) @id (#eq? @id \"x\"))", caps: &[("id", "identifier", Q::One)], root_all: None },
    QShape { text: "(attribute object: (_) @o attribute: (identifier) @at) @attr", caps: &[("attr", "attribute", Q::One), ("o", "*", Q::One), ("at", "identifier", Q::One)], root_all: Some("attribute") },
    QShape { text: "(module (_)* @stmts) @m", caps: &[("m", "module", Q::One), ("stmts", "*", Q::List)], root_all: Some("module") },
    QShape { text: "(argument_list (_) @_first . (_)? @second)", caps: &[("_first", "*", Q::One), ("second", "*", Q::Opt)], root_all: None },
    QShape { text: "(parenthesized_expression (_) @inner) @par", caps: &[("par", "parenthesized_expression", Q::One), ("inner", "*", Q::One)], root_all: Some("parenthesized_expression") },
    QShape { text: "(if_statement condition: (_) @cond) @ifs", caps: &[("ifs", "if_statement", Q::One), ("cond", "*", Q::One)], root_all: Some("if_statement") },
];

// ---------------------------------------------------------------------------------------------
// Typed generator

#[derive(Clone, Copy, Debug, PartialEq, Eq)]
pub enum Ty {
    GNode,
    Syn,
    SynList,
    SynOpt,
    Str,
    StrOpt,
    Int,
    Bool,
    StrList,
}

#[derive(Clone, Debug)]
struct LocalVar {
    name: String,
    ty: Ty,
    /// checker's notion: not derived from scoped or mutable variables
    local: bool,
    mutable: bool,
}

#[derive(Clone, Debug)]
struct ScopedDef {
    name: String,
    /// node kind every node of which carries the variable ("module" also serves inherit)
    kind: &'static str,
    ty: Ty,
    inherited: bool,
}

#[derive(Clone, Debug)]
pub struct GenCfg {
    pub lazy_compatible: bool,
    pub strict_compatible: bool,
    pub ticks: bool,
    /// tick labels carry the id of the enclosing statement: `t<n>_s<id>`
    pub tick_stmt_ids: bool,
    /// per-mille probability that a statement is deliberately ill-typed / conflicting
    pub fault_permille: usize,
    pub min_stanzas: usize,
    pub max_stanzas: usize,
    pub max_stmts: usize,
    pub max_depth: usize,
    pub allow_print: bool,
    pub allow_globals: bool,
    pub allow_shorthands: bool,
    pub allow_scan: bool,
    /// pre-existing graph nodes passed in as globals named gn0.. (C09)
    pub graph_node_globals: usize,
    /// attribute values may be graph-node references (never rendered to text)
    pub gnode_attr_values: bool,
}

impl Default for GenCfg {
    fn default() -> Self {
        GenCfg {
            lazy_compatible: true,
            strict_compatible: true,
            ticks: false,
            tick_stmt_ids: false,
            fault_permille: 0,
            min_stanzas: 1,
            max_stanzas: 5,
            max_stmts: 6,
            max_depth: 2,
            allow_print: false,
            allow_globals: true,
            allow_shorthands: true,
            allow_scan: true,
            graph_node_globals: 0,
            gnode_attr_values: false,
        }
    }
}

pub struct Generated {
    pub prog: Prog,
    /// globals the caller must supply: (name, kind) with kind in "str", "strlist", "stropt-some",
    /// "stropt-null", "gnode"
    pub needed_globals: Vec<(String, &'static str)>,
}

struct Gen<'r> {
    r: &'r mut Rng,
    cfg: GenCfg,
    counter: usize,
    tick_counter: usize,
    scoped: Vec<ScopedDef>,
    globals: Vec<(String, Ty)>,
    shorthands: Vec<String>,
    scopes: Vec<Vec<LocalVar>>,
    caps: Vec<(&'static str, &'static str, Q)>,
    used_caps: BTreeSet<&'static str>,
    in_scan_groups: Option<usize>,
    attr_counter: usize,
    /// statements that must precede the one just generated (e.g. the `edge` an edge
    /// attribute refers to)
    pending: Vec<Stmt>,
    stmt_counter: usize,
    cur_stmt: usize,
    /// per-program suffix of generated names: a long-running process meets thousands of
    /// distinct identifiers
    name_tag: String,
}

const ATTR_NAMES: &[&str] = &["name", "kind", "w", "tag", "pos", "val", "k1", "k2", "label"];
const STRS: &[&str] = &["a", "b", "ab", "a/b/c.py", "x1y22z333", "héé", "", "foo bar", "{}"];
const REGEXES: &[(&str, usize)] = &[
    ("a", 0),
    ("[a-z]+", 0),
    ("([a-z])([0-9]+)", 2),
    ("([^/]+)/", 1),
    ("[0-9]", 0),
    ("(b)|(c)", 2),
    ("é+", 0),
    ("\\.py$", 0),
];

impl<'r> Gen<'r> {
    fn fresh(&mut self, p: &str) -> String {
        self.counter += 1;
        format!("{}{}{}", p, self.counter, self.name_tag)
    }

    fn tick(&mut self, e: Expr) -> Expr {
        if self.cfg.ticks && self.r.chance(2, 3) {
            self.tick_counter += 1;
            let label = if self.cfg.tick_stmt_ids {
                format!("t{}_s{}", self.tick_counter, self.cur_stmt)
            } else {
                format!("t{}", self.tick_counter)
            };
            Expr::Call("tick".into(), vec![Expr::Str(label), e])
        } else {
            e
        }
    }

    fn locals_of(&self, ty: Ty, need_local: bool) -> Vec<LocalVar> {
        self.scopes
            .iter()
            .flatten()
            .filter(|v| v.ty == ty && (!need_local || v.local))
            .cloned()
            .collect()
    }

    fn use_cap(&mut self, name: &'static str) -> Expr {
        self.used_caps.insert(name);
        Expr::Cap(name.to_string())
    }

    fn caps_of(&self, q: Q) -> Vec<(&'static str, &'static str, Q)> {
        self.caps.iter().filter(|c| c.2 == q).cloned().collect()
    }

    /// An expression of syntax-node type; returns (expr, kind, is_local).
    fn syn_expr(&mut self) -> Option<(Expr, &'static str, bool)> {
        let caps = self.caps_of(Q::One);
        let locs = self.locals_of(Ty::Syn, false);
        let n = caps.len() + locs.len();
        if n == 0 {
            return None;
        }
        let i = self.r.below(n);
        if i < caps.len() {
            let c = caps[i];
            Some((self.use_cap(c.0), c.1, true))
        } else {
            let v = &locs[i - caps.len()];
            Some((Expr::Var(v.name.clone()), "*", v.local))
        }
    }

    /// Scoped variables of type `ty` readable here: (expr, local=false)
    fn scoped_read(&mut self, ty: Ty) -> Option<Expr> {
        let defs: Vec<ScopedDef> = self.scoped.iter().filter(|d| d.ty == ty).cloned().collect();
        if defs.is_empty() {
            return None;
        }
        let mut options: Vec<(Expr, bool)> = Vec::new();
        for d in &defs {
            for c in self.caps.clone() {
                if c.2 != Q::One {
                    continue;
                }
                if c.1 == d.kind || d.inherited {
                    options.push((Expr::Scoped(Box::new(Expr::Cap(c.0.to_string())), d.name.clone()), true));
                }
            }
            for v in self.locals_of(Ty::Syn, false) {
                if d.inherited {
                    options.push((Expr::Scoped(Box::new(Expr::Var(v.name.clone())), d.name.clone()), false));
                }
            }
        }
        if options.is_empty() {
            return None;
        }
        let (e, _) = self.r.pick(&options).clone();
        if let Expr::Scoped(inner, _) = &e {
            if let Expr::Cap(c) = &**inner {
                let cn = self.caps.iter().find(|x| x.0 == c).map(|x| x.0);
                if let Some(cn) = cn {
                    self.used_caps.insert(cn);
                }
            }
        }
        Some(e)
    }

    fn str_expr(&mut self, need_local: bool, depth: usize) -> Expr {
        let mut opts = vec![0usize, 0, 1];
        if self.syn_available() {
            opts.push(2);
            opts.push(2);
        }
        if !self.locals_of(Ty::Str, need_local).is_empty() {
            opts.push(3);
            opts.push(3);
        }
        if self.globals.iter().any(|g| g.1 == Ty::Str) {
            opts.push(4);
        }
        if !need_local {
            opts.push(5);
        }
        if self.in_scan_groups.is_some() {
            opts.push(6);
            opts.push(6);
        }
        if depth < 2 {
            opts.push(7);
            opts.push(8);
        }
        match *self.r.pick(&opts) {
            0 => Expr::Str(self.r.pick(STRS).to_string()),
            1 => Expr::Str(format!("s{}", self.r.below(5))),
            2 => {
                let (e, _, local) = self.syn_expr().unwrap();
                if need_local && !local {
                    return Expr::Str("nl".into());
                }
                let f = *self.r.pick(&["source-text", "node-type"]);
                Expr::Call(f.into(), vec![e])
            }
            3 => {
                let v = self.locals_of(Ty::Str, need_local);
                Expr::Var(self.r.pick(&v).name.clone())
            }
            4 => {
                let g: Vec<_> = self.globals.iter().filter(|g| g.1 == Ty::Str).cloned().collect();
                Expr::Var(self.r.pick(&g).0.clone())
            }
            5 => match self.scoped_read(Ty::Str) {
                Some(e) => e,
                None => Expr::Str("nosc".into()),
            },
            6 => {
                let n = self.in_scan_groups.unwrap();
                Expr::ReCap(self.r.below(n + 1))
            }
            7 => {
                let a = self.str_expr(need_local, depth + 1);
                let b = self.int_expr(need_local, depth + 1);
                Expr::Call("format".into(), vec![Expr::Str("{}-{}".into()), a, b])
            }
            _ => {
                let a = self.str_expr(need_local, depth + 1);
                let pat = *self.r.pick(&["a", "b", "[0-9]+", "é", "[a-z]"]);
                let rep = *self.r.pick(&["A", "_", ""]);
                // a third of the replacements are computed (a global, a scoped variable, ...), so
                // that calls can agree on text and pattern and differ in the replacement only
                let rep_e = if self.r.chance(1, 3) { self.str_expr(need_local, depth + 1) } else { Expr::Str(rep.into()) };
                Expr::Call("replace".into(), vec![a, Expr::Str(pat.into()), rep_e])
            }
        }
    }

    fn syn_available(&self) -> bool {
        !self.caps_of(Q::One).is_empty() || !self.locals_of(Ty::Syn, false).is_empty()
    }

    fn int_expr(&mut self, need_local: bool, depth: usize) -> Expr {
        let mut opts = vec![0usize, 0];
        if self.syn_available() {
            opts.push(1);
        }
        if !self.locals_of(Ty::Int, need_local).is_empty() {
            opts.push(2);
            opts.push(2);
        }
        if depth < 2 {
            opts.push(3);
        }
        if !self.caps_of(Q::List).is_empty() {
            opts.push(4);
        }
        match *self.r.pick(&opts) {
            0 => Expr::Int(self.r.below(50) as u32),
            1 => {
                let (e, kind, local) = self.syn_expr().unwrap();
                if need_local && !local {
                    return Expr::Int(7);
                }
                let mut fs = vec!["start-row", "start-column", "end-row", "end-column", "named-child-count"];
                if kind != "module" && kind != "*" {
                    // (not defined for the root node)
                    fs.push("named-child-index");
                    fs.push("named-child-index");
                }
                let f = *self.r.pick(&fs);
                Expr::Call(f.into(), vec![e])
            }
            2 => {
                let v = self.locals_of(Ty::Int, need_local);
                Expr::Var(self.r.pick(&v).name.clone())
            }
            3 => {
                let a = self.int_expr(need_local, depth + 1);
                let b = self.int_expr(need_local, depth + 1);
                Expr::Call("plus".into(), vec![a, b])
            }
            _ => {
                let c = *self.r.pick(&self.caps_of(Q::List));
                Expr::Call("length".into(), vec![self.use_cap(c.0)])
            }
        }
    }

    fn bool_expr(&mut self, need_local: bool, depth: usize) -> Expr {
        let mut opts = vec![0usize, 1];
        if depth < 2 {
            opts.extend([2, 3, 4]);
        }
        if !self.caps_of(Q::Opt).is_empty() {
            opts.push(5);
        }
        if !self.caps_of(Q::List).is_empty() {
            opts.push(6);
        }
        match *self.r.pick(&opts) {
            0 => Expr::True,
            1 => Expr::False,
            2 => {
                let a = self.str_expr(need_local, depth + 1);
                let b = self.str_expr(need_local, depth + 1);
                Expr::Call("eq".into(), vec![a, b])
            }
            3 => {
                let a = self.bool_expr(need_local, depth + 1);
                Expr::Call("not".into(), vec![a])
            }
            4 => {
                let a = self.bool_expr(need_local, depth + 1);
                let b = self.bool_expr(need_local, depth + 1);
                let f = *self.r.pick(&["and", "or"]);
                Expr::Call(f.into(), vec![a, b])
            }
            5 => {
                let c = *self.r.pick(&self.caps_of(Q::Opt));
                Expr::Call("is-null".into(), vec![self.use_cap(c.0)])
            }
            _ => {
                let c = *self.r.pick(&self.caps_of(Q::List));
                Expr::Call("is-empty".into(), vec![self.use_cap(c.0)])
            }
        }
    }

    /// A graph-node expression available here, or None.
    fn gnode_expr(&mut self) -> Option<Expr> {
        let mut options: Vec<Expr> = Vec::new();
        for v in self.locals_of(Ty::GNode, false) {
            options.push(Expr::Var(v.name.clone()));
            options.push(Expr::Var(v.name.clone()));
        }
        for g in self.globals.iter().filter(|g| g.1 == Ty::GNode) {
            options.push(Expr::Var(g.0.clone()));
        }
        if let Some(e) = self.scoped_read(Ty::GNode) {
            options.push(e.clone());
            options.push(e);
        }
        if options.is_empty() {
            None
        } else {
            Some(self.r.pick(&options).clone())
        }
    }

    fn any_value(&mut self, depth: usize) -> Expr {
        if self.cfg.gnode_attr_values && self.r.chance(1, 6) {
            if let Some(g) = self.gnode_expr() {
                return g;
            }
        }
        let e = match self.r.below(9) {
            0 | 1 => self.str_expr(false, depth),
            2 => self.int_expr(false, depth),
            3 => self.bool_expr(false, depth),
            4 => Expr::Null,
            5 => {
                if let Some((e, _, _)) = self.syn_expr() {
                    e
                } else {
                    Expr::Int(1)
                }
            }
            6 => {
                let n = self.r.below(4);
                Expr::List((0..n).map(|_| self.str_expr(false, depth + 1)).collect())
            }
            7 => {
                let n = self.r.below(4);
                Expr::Set((0..n).map(|_| self.int_expr(false, depth + 1)).collect())
            }
            _ => {
                // comprehension over a list capture or literal list
                let lists = self.caps_of(Q::List);
                let v = self.fresh("e");
                if !lists.is_empty() && self.r.chance(2, 3) {
                    let c = *self.r.pick(&lists);
                    let src = self.use_cap(c.0);
                    let el = Expr::Call(
                        (*self.r.pick(&["source-text", "node-type", "start-row"])).into(),
                        vec![Expr::Var(v.clone())],
                    );
                    if self.r.chance(1, 2) {
                        Expr::ListComp(Box::new(el), v, Box::new(src))
                    } else {
                        Expr::SetComp(Box::new(el), v, Box::new(src))
                    }
                } else {
                    let src = Expr::List(vec![Expr::Int(1), Expr::Int(2), Expr::Int(2)]);
                    let el = Expr::Call("plus".into(), vec![Expr::Var(v.clone()), Expr::Int(1)]);
                    if self.r.chance(1, 2) {
                        Expr::ListComp(Box::new(el), v, Box::new(src))
                    } else {
                        Expr::SetComp(Box::new(el), v, Box::new(src))
                    }
                }
            }
        };
        self.tick(e)
    }

    fn attr_name(&mut self) -> String {
        if self.r.chance(1, 3) {
            self.attr_counter += 1;
            format!("u{}{}", self.attr_counter, self.name_tag)
        } else {
            self.r.pick(ATTR_NAMES).to_string()
        }
    }

    fn attrs(&mut self, fresh_names: bool) -> Vec<(String, Expr)> {
        let n = self.r.range(1, 3);
        let mut out: Vec<(String, Expr)> = Vec::new();
        for _ in 0..n {
            let mut name = if fresh_names {
                self.attr_counter += 1;
                format!("u{}{}", self.attr_counter, self.name_tag)
            } else {
                self.attr_name()
            };
            if out.iter().any(|a| a.0 == name) {
                self.attr_counter += 1;
                name = format!("u{}{}", self.attr_counter, self.name_tag);
            }
            if !self.shorthands.is_empty() && self.r.chance(1, 6) && self.syn_available() {
                let sh = self.r.pick(&self.shorthands).clone();
                if !out.iter().any(|a| a.0 == sh) {
                    let (e, _, _) = self.syn_expr().unwrap();
                    out.push((sh, e));
                    continue;
                }
            }
            let v = self.any_value(0);
            out.push((name, v));
        }
        out
    }

    fn add_local(&mut self, name: String, ty: Ty, local: bool, mutable: bool) {
        self.scopes.last_mut().unwrap().push(LocalVar {
            name,
            ty,
            local: local && !mutable,
            mutable,
        });
    }

    fn block(&mut self, n: usize, depth: usize) -> Vec<Stmt> {
        self.scopes.push(Vec::new());
        let mut out = Vec::new();
        for _ in 0..n {
            if let Some(s) = self.stmt(depth) {
                self.flush_pending(&mut out);
                out.push(s);
            }
        }
        self.scopes.pop();
        out
    }

    fn fault_stmt(&mut self) -> Stmt {
        // a statement that fails at run time, after earlier statements have had effects
        match self.r.below(6) {
            0 => Stmt::AttrNode(Expr::Str("not a node".into()), vec![("w".into(), Expr::Int(1))]),
            1 => Stmt::Edge(Expr::Int(3), Expr::Null),
            2 => Stmt::Let(
                VarRef::Local(self.fresh("bad")),
                Expr::Call("plus".into(), vec![Expr::Str("x".into()), Expr::Int(1)]),
            ),
            3 => Stmt::Let(
                VarRef::Local(self.fresh("bad")),
                // not defined; some of the names are one edit away from two library functions
                Expr::Call((*self.r.pick(&["no-such-function", "nod", "nod", "eqq", "plu", "o", "an", "end-ro"])).into(), vec![Expr::Int(1)]),
            ),
            4 => match self.gnode_expr() {
                Some(g) => Stmt::AttrNode(
                    g.clone(),
                    vec![("clash".into(), Expr::Int(1)), ("clash".into(), Expr::Int(2))],
                ),
                None => Stmt::Edge(Expr::Int(3), Expr::Null),
            },
            _ => match self.gnode_expr() {
                Some(g) => Stmt::AttrEdge(
                    g.clone(),
                    g,
                    vec![("w".into(), Expr::Int(1))],
                ),
                None => Stmt::Let(
                    VarRef::Local(self.fresh("bad")),
                    Expr::Call("format".into(), vec![Expr::Str("{}".into())]),
                ),
            },
        }
    }

    fn stmt(&mut self, depth: usize) -> Option<Stmt> {
        let saved = self.cur_stmt;
        self.stmt_counter += 1;
        self.cur_stmt = self.stmt_counter;
        let r = self.stmt_inner(depth);
        self.cur_stmt = saved;
        r
    }

    fn new_stmt_id(&mut self) {
        self.stmt_counter += 1;
        self.cur_stmt = self.stmt_counter;
    }

    fn stmt_inner(&mut self, depth: usize) -> Option<Stmt> {
        if self.cfg.fault_permille > 0 && self.r.below(1000) < self.cfg.fault_permille {
            return Some(self.fault_stmt());
        }
        let have_gnode = self.gnode_expr().is_some();
        // weights: node, let, var/set, edge, attr-node, attr-edge, if, for, scan, print
        let mut w = [4usize, 3, 2, 0, 0, 0, 0, 0, 0, 0];
        if have_gnode {
            w[3] = 4;
            w[4] = 5;
            w[5] = 2;
        }
        if depth < self.cfg.max_depth {
            w[6] = 2;
            w[7] = 2;
            if self.cfg.allow_scan {
                w[8] = 2;
            }
        }
        if self.cfg.allow_print {
            w[9] = 1;
        }
        match self.r.weighted(&w) {
            0 => {
                // node: local or scoped on a capture
                let n = self.fresh("n");
                self.add_local(n.clone(), Ty::GNode, true, false);
                Some(Stmt::Node(VarRef::Local(n)))
            }
            1 => {
                let n = self.fresh("v");
                match self.r.below(6) {
                    0 => {
                        let e = self.str_expr(false, 0);
                        let local = expr_is_local(&e, self);
                        let e = self.tick(e);
                        self.add_local(n.clone(), Ty::Str, local, false);
                        Some(Stmt::Let(VarRef::Local(n), e))
                    }
                    1 => {
                        let e = self.int_expr(false, 0);
                        let local = expr_is_local(&e, self);
                        let e = self.tick(e);
                        self.add_local(n.clone(), Ty::Int, local, false);
                        Some(Stmt::Let(VarRef::Local(n), e))
                    }
                    2 => {
                        let e = Expr::Call("node".into(), vec![]);
                        self.add_local(n.clone(), Ty::GNode, true, false);
                        Some(Stmt::Let(VarRef::Local(n), e))
                    }
                    3 => {
                        if let Some((e, _, local)) = self.syn_expr() {
                            self.add_local(n.clone(), Ty::Syn, local, false);
                            Some(Stmt::Let(VarRef::Local(n), e))
                        } else {
                            None
                        }
                    }
                    4 => {
                        let k = self.r.below(4);
                        let e = Expr::List((0..k).map(|_| self.str_expr(true, 1)).collect());
                        self.add_local(n.clone(), Ty::StrList, true, false);
                        Some(Stmt::Let(VarRef::Local(n), e))
                    }
                    _ => {
                        let e = self.any_value(0);
                        // type unknown to us: do not register for later typed use
                        Some(Stmt::Let(VarRef::Local(n), e))
                    }
                }
            }
            2 => {
                // var + later set (same scope) or set of an existing mutable
                let muts: Vec<LocalVar> = self
                    .scopes
                    .iter()
                    .flatten()
                    .filter(|v| v.mutable)
                    .cloned()
                    .collect();
                if !muts.is_empty() && self.r.chance(1, 2) {
                    let v = self.r.pick(&muts).clone();
                    let e = match v.ty {
                        Ty::Int => self.int_expr(false, 0),
                        Ty::GNode => Expr::Call("node".into(), vec![]),
                        _ => self.str_expr(false, 0),
                    };
                    Some(Stmt::Set(VarRef::Local(v.name), e))
                } else {
                    let n = self.fresh("m");
                    let (ty, e) = match self.r.below(3) {
                        0 => (Ty::Int, self.int_expr(false, 0)),
                        1 => (Ty::GNode, Expr::Call("node".into(), vec![])),
                        _ => (Ty::Str, self.str_expr(false, 0)),
                    };
                    self.add_local(n.clone(), ty, false, true);
                    Some(Stmt::VarDecl(VarRef::Local(n), e))
                }
            }
            3 => {
                let a = self.gnode_expr()?;
                let b = self.gnode_expr()?;
                Some(Stmt::Edge(a, b))
            }
            4 => {
                let n = self.gnode_expr()?;
                // attributes on shared (scoped/global) nodes use fresh names to avoid
                // accidental conflicts; on local nodes any name
                let shared = !matches!(n, Expr::Var(_)) || self.globals.iter().any(|g| Expr::Var(g.0.clone()) == n);
                let a = self.attrs(shared || depth > 0);
                Some(Stmt::AttrNode(n, a))
            }
            5 => {
                // edge attribute: create the edge first in the same block for validity
                let a = self.gnode_expr()?;
                let b = self.gnode_expr()?;
                let at = self.attrs(true);
                self.pending.push(Stmt::Edge(a.clone(), b.clone()));
                Some(Stmt::AttrEdge(a, b, at))
            }
            6 => {
                let arms_n = self.r.range(1, 3);
                let mut arms = Vec::new();
                for i in 0..arms_n {
                    let conds = if i == arms_n - 1 && arms_n > 1 && self.r.chance(1, 2) {
                        Vec::new()
                    } else {
                        let opts = self.caps_of(Q::Opt);
                        let mut cs = Vec::new();
                        let k = self.r.range(1, 2);
                        for _ in 0..k {
                            if !opts.is_empty() && self.r.chance(1, 2) {
                                let c = *self.r.pick(&opts);
                                let e = self.use_cap(c.0);
                                cs.push(if self.r.chance(1, 2) {
                                    Cond::Some(e)
                                } else {
                                    Cond::None(e)
                                });
                            } else {
                                let b = self.bool_expr(true, 0);
                                cs.push(Cond::Bool(self.tick(b)));
                            }
                        }
                        cs
                    };
                    let n = self.r.range(0, 3);
                    let body = self.block(n, depth + 1);
                    arms.push(IfArm { conds, body });
                }
                Some(Stmt::If(arms))
            }
            7 => {
                let v = self.fresh("it");
                let lists = self.caps_of(Q::List);
                let strlists = self.locals_of(Ty::StrList, true);
                let (src, ty) = if !lists.is_empty() && self.r.chance(2, 3) {
                    let c = *self.r.pick(&lists);
                    (self.use_cap(c.0), Ty::Syn)
                } else if !strlists.is_empty() && self.r.chance(1, 2) {
                    (Expr::Var(self.r.pick(&strlists).name.clone()), Ty::Str)
                } else if self.globals.iter().any(|g| g.1 == Ty::StrList) && self.r.chance(1, 2) {
                    let g: Vec<_> = self
                        .globals
                        .iter()
                        .filter(|g| g.1 == Ty::StrList)
                        .cloned()
                        .collect();
                    (Expr::Var(self.r.pick(&g).0.clone()), Ty::Str)
                } else {
                    let k = self.r.below(4);
                    (
                        Expr::List((0..k).map(|i| Expr::Int(i as u32)).collect()),
                        Ty::Int,
                    )
                };
                self.scopes.push(vec![LocalVar {
                    name: v.clone(),
                    ty,
                    local: true,
                    mutable: false,
                }]);
                let n = self.r.range(1, 3);
                let mut body = Vec::new();
                for _ in 0..n {
                    if let Some(s) = self.stmt(depth + 1) {
                        self.flush_pending(&mut body);
                        body.push(s);
                    }
                }
                self.scopes.pop();
                Some(Stmt::For(v, src, body))
            }
            8 => {
                let subject = self.str_expr(true, 0);
                let subject = self.tick(subject);
                let arms_n = self.r.range(1, 3);
                let mut arms = Vec::new();
                let mut used = BTreeSet::new();
                for _ in 0..arms_n {
                    // half of the arms use one of thousands of distinct (rarely matching)
                    // patterns, so that a long-running process meets many different regexes
                    let synthetic = format!("q{}z[a-z]", self.r.below(100_000));
                    let (re, groups): (&str, usize) = if self.r.chance(1, 2) { (synthetic.as_str(), 0) } else { *self.r.pick(REGEXES) };
                    if !used.insert(re.to_string()) {
                        continue;
                    }
                    let saved = self.in_scan_groups;
                    self.in_scan_groups = Some(groups);
                    let n = self.r.range(0, 3);
                    let body = self.block(n, depth + 1);
                    self.in_scan_groups = saved;
                    arms.push((re.to_string(), body));
                }
                Some(Stmt::Scan(subject, arms))
            }
            _ => {
                let e = self.any_value(1);
                Some(Stmt::Print(vec![Expr::Str("p: ".into()), e]))
            }
        }
    }

    fn flush_pending(&mut self, out: &mut Vec<Stmt>) {
        out.append(&mut self.pending);
    }
}

fn expr_is_local(e: &Expr, g: &Gen) -> bool {
    match e {
        Expr::Scoped(_, _) => false,
        Expr::Var(v) => g
            .scopes
            .iter()
            .flatten()
            .find(|x| &x.name == v)
            .map(|x| x.local)
            .unwrap_or(true),
        Expr::List(l) | Expr::Set(l) => l.iter().all(|x| expr_is_local(x, g)),
        Expr::ListComp(a, _, _) | Expr::SetComp(a, _, _) => expr_is_local(a, g),
        Expr::Call(_, ps) => ps.iter().all(|x| expr_is_local(x, g)),
        _ => true,
    }
}

// ---------------------------------------------------------------------------------------------
// Top level

pub fn shape_by_text(t: &str) -> Option<&'static QShape> {
    SHAPES.iter().find(|s| s.text == t)
}

/// Generates one program.  Most programs load and run successfully in the modes `cfg` asks
/// compatibility with; the rest fail at load or run time, which is an outcome like any other.
pub fn gen_program(r: &mut Rng, cfg: &GenCfg) -> Generated {
    let mut g = Gen {
        r,
        cfg: cfg.clone(),
        counter: 0,
        tick_counter: 0,
        scoped: Vec::new(),
        globals: Vec::new(),
        shorthands: Vec::new(),
        scopes: Vec::new(),
        caps: Vec::new(),
        used_caps: BTreeSet::new(),
        in_scan_groups: None,
        attr_counter: 0,
        pending: Vec::new(),
        stmt_counter: 0,
        cur_stmt: 0,
        name_tag: String::new(),
    };
    if g.r.chance(3, 4) {
        let letters = b"abcdefghijklmnopqrstuvwxyz";
        g.name_tag = (0..3).map(|_| letters[g.r.below(26)] as char).collect();
    }
    let mut prog = Prog::default();
    let mut needed: Vec<(String, &'static str)> = Vec::new();

    for i in 0..cfg.graph_node_globals {
        let name = format!("gn{}", i);
        prog.globals.push(GlobalDecl { name: name.clone(), quant: "", default: None });
        g.globals.push((name.clone(), Ty::GNode));
        needed.push((name, "gnode"));
    }
    if cfg.allow_globals {
        if g.r.chance(1, 2) {
            prog.globals.push(GlobalDecl { name: "g_path".into(), quant: "", default: None });
            g.globals.push(("g_path".into(), Ty::Str));
            needed.push(("g_path".into(), "str"));
        }
        if g.r.chance(1, 3) {
            let d = g.r.pick(STRS).to_string();
            prog.globals.push(GlobalDecl { name: "g_def".into(), quant: "", default: Some(d) });
            g.globals.push(("g_def".into(), Ty::Str));
            if g.r.chance(1, 2) {
                needed.push(("g_def".into(), "str"));
            }
        }
        if g.r.chance(1, 4) {
            prog.globals.push(GlobalDecl { name: "g_list".into(), quant: "*", default: None });
            g.globals.push(("g_list".into(), Ty::StrList));
            needed.push(("g_list".into(), "strlist"));
        }
    }
    if cfg.allow_shorthands && g.r.chance(1, 3) {
        prog.shorthands.push(Shorthand {
            name: "node_props".into(),
            var: "nd".into(),
            attrs: vec![
                ("node_text".into(), Expr::Call("source-text".into(), vec![Expr::Var("nd".into())])),
                ("node_kind".into(), Expr::Call("node-type".into(), vec![Expr::Var("nd".into())])),
            ],
        });
        g.shorthands.push("node_props".into());
    }

    let n_stanzas = g.r.range(cfg.min_stanzas, cfg.max_stanzas);
    let n_definers = if n_stanzas >= 2 { g.r.range(0, (n_stanzas / 2).max(1)) } else { g.r.below(2) };
    let definer_shapes: Vec<&QShape> = SHAPES.iter().filter(|s| s.root_all.is_some()).collect();

    let mut stanzas: Vec<(bool, Stanza)> = Vec::new();
    let mut defined_on: BTreeMap<&'static str, usize> = BTreeMap::new();
    for _ in 0..n_definers {
        let sh = *g.r.pick(&definer_shapes);
        let kind = sh.root_all.unwrap();
        let root = sh.caps[0].0;
        let idx = defined_on.entry(kind).or_insert(0);
        *idx += 1;
        g.caps = sh.caps.to_vec();
        g.used_caps.clear();
        g.scopes.clear();
        g.scopes.push(Vec::new());
        let mut stmts = Vec::new();
        let inherited = kind == "module" && g.r.chance(2, 3);
        let which = g.r.below(3);
        match which {
            0 | 1 => {
                let name = format!("{}_node{}", &kind[..2], idx);
                stmts.push(Stmt::Node(VarRef::Scoped(Expr::Cap(root.into()), name.clone())));
                g.used_caps.insert(root);
                g.scoped.push(ScopedDef { name: name.clone(), kind, ty: Ty::GNode, inherited });
                if inherited {
                    prog.inherits.push(name.clone());
                }
                // annotate right away, sometimes
                if g.r.chance(1, 2) {
                    g.new_stmt_id();
                    let a = g.attrs(true);
                    stmts.push(Stmt::AttrNode(
                        Expr::Scoped(Box::new(Expr::Cap(root.into())), name),
                        a,
                    ));
                }
            }
            _ => {
                let name = format!("{}_tag{}", &kind[..2], idx);
                g.new_stmt_id();
                let v = g.tick(Expr::Call("node-type".into(), vec![Expr::Cap(root.into())]));
                stmts.push(Stmt::Let(VarRef::Scoped(Expr::Cap(root.into()), name.clone()), v));
                g.used_caps.insert(root);
                g.scoped.push(ScopedDef { name: name.clone(), kind, ty: Ty::Str, inherited });
                if inherited {
                    prog.inherits.push(name);
                }
            }
        }
        let extra = g.r.below(3);
        for _ in 0..extra {
            if let Some(s) = g.stmt(0) {
                g.flush_pending(&mut stmts);
                stmts.push(s);
            }
        }
        finish_caps(&mut g, &mut stmts);
        stanzas.push((true, Stanza { query: sh.text.to_string(), stmts }));
    }
    for _ in n_definers..n_stanzas {
        let sh = g.r.pick(SHAPES).clone();
        g.caps = sh.caps.to_vec();
        g.used_caps.clear();
        g.scopes.clear();
        g.scopes.push(Vec::new());
        let n = g.r.range(1, cfg.max_stmts);
        let mut stmts = Vec::new();
        for _ in 0..n {
            if let Some(s) = g.stmt(0) {
                g.flush_pending(&mut stmts);
                stmts.push(s);
            }
        }
        finish_caps(&mut g, &mut stmts);
        stanzas.push((false, Stanza { query: sh.text.to_string(), stmts }));
    }
    if !cfg.strict_compatible {
        // lazy-only programs may place readers before definers
        let mut idx: Vec<usize> = (0..stanzas.len()).collect();
        g.r.shuffle(&mut idx);
        prog.stanzas = idx.into_iter().map(|i| stanzas[i].1.clone()).collect();
    } else {
        prog.stanzas = stanzas.into_iter().map(|s| s.1).collect();
    }
    Generated { prog, needed_globals: needed }
}

fn caps_in_expr(e: &Expr, out: &mut BTreeSet<String>) {
    match e {
        Expr::Cap(c) => {
            out.insert(c.clone());
        }
        Expr::List(l) | Expr::Set(l) => l.iter().for_each(|x| caps_in_expr(x, out)),
        Expr::ListComp(a, _, b) | Expr::SetComp(a, _, b) => {
            caps_in_expr(a, out);
            caps_in_expr(b, out)
        }
        Expr::Scoped(s, _) => caps_in_expr(s, out),
        Expr::Call(_, ps) => ps.iter().for_each(|x| caps_in_expr(x, out)),
        _ => {}
    }
}

fn caps_in_var(v: &VarRef, out: &mut BTreeSet<String>) {
    if let VarRef::Scoped(e, _) = v {
        caps_in_expr(e, out)
    }
}

pub fn caps_in_stmts(s: &[Stmt], out: &mut BTreeSet<String>) {
    for x in s {
        match x {
            Stmt::Node(v) => caps_in_var(v, out),
            Stmt::Let(v, e) | Stmt::VarDecl(v, e) | Stmt::Set(v, e) => {
                caps_in_var(v, out);
                caps_in_expr(e, out)
            }
            Stmt::Edge(a, b) => {
                caps_in_expr(a, out);
                caps_in_expr(b, out)
            }
            Stmt::AttrNode(n, a) => {
                caps_in_expr(n, out);
                a.iter().for_each(|x| caps_in_expr(&x.1, out))
            }
            Stmt::AttrEdge(a, b, at) => {
                caps_in_expr(a, out);
                caps_in_expr(b, out);
                at.iter().for_each(|x| caps_in_expr(&x.1, out))
            }
            Stmt::If(arms) => {
                for a in arms {
                    for c in &a.conds {
                        match c {
                            Cond::Some(e) | Cond::None(e) | Cond::Bool(e) => caps_in_expr(e, out),
                        }
                    }
                    caps_in_stmts(&a.body, out)
                }
            }
            Stmt::For(_, e, b) => {
                caps_in_expr(e, out);
                caps_in_stmts(b, out)
            }
            Stmt::Scan(e, arms) => {
                caps_in_expr(e, out);
                arms.iter().for_each(|a| caps_in_stmts(&a.1, out))
            }
            Stmt::Print(es) => es.iter().for_each(|e| caps_in_expr(e, out)),
        }
    }
}

fn finish_caps(g: &mut Gen, stmts: &mut Vec<Stmt>) {
    let mut used = BTreeSet::new();
    caps_in_stmts(stmts, &mut used);
    for c in g.caps.clone() {
        if c.0.starts_with('_') || used.contains(c.0) {
            continue;
        }
        let n = g.fresh("u");
        stmts.push(Stmt::Let(VarRef::Local(n), Expr::Cap(c.0.to_string())));
    }
}

/// Concrete values for the globals a generated program needs.
pub fn supply_globals(r: &mut Rng, needed: &[(String, &'static str)]) -> crate::simrun::Globs {
    use crate::simrun::GVal;
    let mut out = Vec::new();
    for (name, kind) in needed {
        let v = match *kind {
            "str" => GVal::Str(r.pick(STRS).to_string()),
            "strlist" => {
                let n = r.below(4);
                GVal::List((0..n).map(|_| GVal::Str(r.pick(STRS).to_string())).collect())
            }
            "gnode" => {
                let i: u32 = name.trim_start_matches("gn").parse().unwrap_or(0);
                GVal::GNode(i)
            }
            _ => GVal::Null,
        };
        out.push((name.clone(), v));
    }
    out
}

// ---------------------------------------------------------------------------------------------
// Shrinking support: all programs obtained by deleting one statement or one stanza.

pub fn shrink_candidates(p: &Prog) -> Vec<Prog> {
    let mut out = Vec::new();
    if p.stanzas.len() > 1 {
        for i in 0..p.stanzas.len() {
            let mut q = p.clone();
            q.stanzas.remove(i);
            out.push(q);
        }
    }
    for i in 0..p.stanzas.len() {
        let n = count_paths(&p.stanzas[i].stmts);
        for k in 0..n {
            let mut q = p.clone();
            let mut c = k;
            if remove_nth(&mut q.stanzas[i].stmts, &mut c) {
                out.push(q);
            }
        }
    }
    out
}

fn count_paths(s: &[Stmt]) -> usize {
    s.iter()
        .map(|x| {
            1 + match x {
                Stmt::If(arms) => arms.iter().map(|a| count_paths(&a.body)).sum(),
                Stmt::For(_, _, b) => count_paths(b),
                Stmt::Scan(_, arms) => arms.iter().map(|a| count_paths(&a.1)).sum(),
                _ => 0,
            }
        })
        .sum()
}

fn remove_nth(s: &mut Vec<Stmt>, k: &mut usize) -> bool {
    let mut i = 0;
    while i < s.len() {
        if *k == 0 {
            s.remove(i);
            return true;
        }
        *k -= 1;
        let done = match &mut s[i] {
            Stmt::If(arms) => arms.iter_mut().any(|a| remove_nth(&mut a.body, k)),
            Stmt::For(_, _, b) => remove_nth(b, k),
            Stmt::Scan(_, arms) => arms.iter_mut().any(|a| remove_nth(&mut a.1, k)),
            _ => false,
        };
        if done {
            return true;
        }
        i += 1;
    }
    false
}


// ---------------------------------------------------------------------------------------------
// Structural twins: the same program with every literal changed (same statement shapes and
// counts, different text), optionally with a statement that fails at run time appended.

fn twin_expr(e: &Expr, k: u32) -> Expr {
    match e {
        Expr::Int(i) => Expr::Int(i.wrapping_add(k) % 1000),
        Expr::Str(s) => Expr::Str(format!("{}~{}", s, k)),
        Expr::List(l) => Expr::List(l.iter().map(|x| twin_expr(x, k)).collect()),
        Expr::Set(l) => Expr::Set(l.iter().map(|x| twin_expr(x, k)).collect()),
        Expr::ListComp(a, v, b) => Expr::ListComp(Box::new(twin_expr(a, k)), v.clone(), Box::new(twin_expr(b, k))),
        Expr::SetComp(a, v, b) => Expr::SetComp(Box::new(twin_expr(a, k)), v.clone(), Box::new(twin_expr(b, k))),
        Expr::Scoped(s, n) => Expr::Scoped(Box::new(twin_expr(s, k)), n.clone()),
        Expr::Call(f, ps) => {
            if f == "format" && !ps.is_empty() {
                // keep the format string: its placeholders must match the argument count
                let mut v = vec![ps[0].clone()];
                v.extend(ps[1..].iter().map(|x| twin_expr(x, k)));
                Expr::Call(f.clone(), v)
            } else {
                Expr::Call(f.clone(), ps.iter().map(|x| twin_expr(x, k)).collect())
            }
        }
        other => other.clone(),
    }
}

fn twin_var(v: &VarRef, k: u32) -> VarRef {
    match v {
        VarRef::Scoped(e, n) => VarRef::Scoped(twin_expr(e, k), n.clone()),
        other => other.clone(),
    }
}

fn twin_stmts(s: &[Stmt], k: u32) -> Vec<Stmt> {
    s.iter()
        .map(|x| match x {
            Stmt::Node(v) => Stmt::Node(twin_var(v, k)),
            Stmt::Let(v, e) => Stmt::Let(twin_var(v, k), twin_expr(e, k)),
            Stmt::VarDecl(v, e) => Stmt::VarDecl(twin_var(v, k), twin_expr(e, k)),
            Stmt::Set(v, e) => Stmt::Set(twin_var(v, k), twin_expr(e, k)),
            Stmt::Edge(a, b) => Stmt::Edge(twin_expr(a, k), twin_expr(b, k)),
            Stmt::AttrNode(n, a) => Stmt::AttrNode(twin_expr(n, k), a.iter().map(|(n, e)| (n.clone(), twin_expr(e, k))).collect()),
            Stmt::AttrEdge(a, b, at) => Stmt::AttrEdge(twin_expr(a, k), twin_expr(b, k), at.iter().map(|(n, e)| (n.clone(), twin_expr(e, k))).collect()),
            Stmt::If(arms) => Stmt::If(
                arms.iter()
                    .map(|a| IfArm {
                        conds: a
                            .conds
                            .iter()
                            .map(|c| match c {
                                Cond::Some(e) => Cond::Some(twin_expr(e, k)),
                                Cond::None(e) => Cond::None(twin_expr(e, k)),
                                Cond::Bool(e) => Cond::Bool(twin_expr(e, k)),
                            })
                            .collect(),
                        body: twin_stmts(&a.body, k),
                    })
                    .collect(),
            ),
            Stmt::For(v, e, b) => Stmt::For(v.clone(), twin_expr(e, k), twin_stmts(b, k)),
            Stmt::Scan(e, arms) => Stmt::Scan(twin_expr(e, k), arms.iter().map(|(r, b)| (r.clone(), twin_stmts(b, k))).collect()),
            Stmt::Print(es) => Stmt::Print(es.iter().map(|e| twin_expr(e, k)).collect()),
        })
        .collect()
}

pub fn twin(p: &Prog, k: u32, failing: bool) -> Prog {
    let mut q = p.clone();
    for s in &mut q.stanzas {
        s.stmts = twin_stmts(&s.stmts, k);
    }
    if failing {
        // every statement is followed by one that fails, naming its own literal: whichever
        // stanza matches first produces an error that quotes this file's text
        for s in &mut q.stanzas {
            s.stmts.push(Stmt::AttrNode(
                Expr::Str(format!("not a node {}", k)),
                vec![(format!("w{}", k), Expr::Int(k))],
            ));
        }
    }
    q
}
