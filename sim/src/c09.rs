//! C09 — edges are a set, attributes are single-assignment, `execute_into` only adds.
//!
//! Histories of 1-3 `execute_into` calls on one (possibly pre-populated) graph, with steps
//! that are cancelled at poll k or fail at run time in between.  A `BTreeMap`-based reference
//! model, re-seeded from the observed graph after every step, predicts the exact result of
//! "touch" steps (programs built from operations on existing and new elements) and checks
//! monotonicity invariants after every step whatever its outcome.

use std::collections::BTreeMap;

use serde_json::json;
use serde_json::Value as J;
use tree_sitter_graph::graph::Graph;
use tree_sitter_graph::graph::Value;
use tree_sitter_graph::ExecutionConfig;
use tree_sitter_graph::Identifier;

use crate::canon;
use crate::canon::CAttrs;
use crate::canon::CGraph;
use crate::canon::CNode;
use crate::canon::CVal;
use crate::canon::Outcome;
use crate::engine::CheckMeta;
use crate::engine::Report;
use crate::engine::ShardCtx;
use crate::engine::Tier;
use crate::engine::Violation;
use crate::entropy;
use crate::gen;
use crate::pysrc;
use crate::rng;
use crate::rng::Rng;
use crate::simrun;
use crate::simrun::GVal;
use crate::simrun::SimFlag;

pub fn meta() -> CheckMeta {
    CheckMeta {
        prop: "C09",
        level: "exploration",
        rule: "A run is a history: a graph pre-populated through the public API (0-6 nodes, edges, attributes) followed by 1-3 \
execute_into steps, each strict or lazy, on one of two trees, running either a 'touch' program (operations generated against \
the model's current image: new nodes stamped with the step number, new/re-created edges, new/equal/conflicting attributes on \
existing and new nodes and edges, executed once or once per pass_statement match) or a generated program that receives existing \
graph nodes as globals; a step may be cancelled at poll k. After every step the observed graph is checked against the previous \
image (nothing lost, numbering continues, no two edges with the same source and sink) and, for uncancelled touch steps, against the model's exact \
prediction (Ok with exactly the predicted graph, or an error when a conflicting value was assigned). Non-trivial = at least one \
step touches a pre-existing element; distinct = hash of (pre-population, step programs, modes, cancellation points).",
        distinct_key: "histories",
        assumptions: vec![
            "Attributes::add is documented to overwrite and report: after a step that returned DuplicateAttribute at most one pre-existing attribute may hold the newly assigned value",
            "which error is reported for a failing step is not compared, only that execution returned an error rather than a graph or a panic",
            "a panic in a step that runs on a fresh, empty graph without cancellation is C05's business (discarded and tallied)",
        ],
        real: vec![
            "tree-sitter-graph parser, checker, strict and lazy interpreters, graph (add_graph_node/add_edge/Attributes), stdlib functions",
            "tree-sitter C runtime and tree-sitter-python grammar",
        ],
        stubbed: vec![
            "CancellationFlag (SimFlag: fails from poll k)",
            "getrandom (hash keys derived from the run seed)",
        ],
        required_probes: vec![
            "probe.edge_recreated_on_prepopulated_graph",
            "probe.equal_value_reassigned",
            "probe.conflicting_value_assigned",
            "probe.conflict_inside_one_statement",
            "probe.shorthand_expanded",
            "probe.hub_with_many_edges_recreated",
            "probe.step_cancelled_midway",
            "probe.step_after_failed_step",
            "probe.new_nodes_after_existing",
            "probe.lazy_step_on_nonempty_graph",
            "probe.step_with_debug_attributes",
            "probe.debug_step_checked_against_model",
            "probe.debug_step_program_uses_a_debug_attribute_name",
        ],
        fault_kinds: vec!["abort_history_at_k", "exec_error", "hash_keys"],
    }
}

// ---------------------------------------------------------------------------------------------
// literals

#[derive(Clone, Debug, PartialEq, Eq)]
pub enum Lit {
    Null,
    Bool(bool),
    Int(u32),
    Str(String),
    List(Vec<Lit>),
    /// an unordered set (possibly of sets): `{{1}, {2}}`
    Set(Vec<Lit>),
    /// the syntax node matched by the stanza (`@_m` / `@_p`): a different value for every
    /// match and for every tree
    Cap,
}

impl Lit {
    fn render(&self) -> String {
        match self {
            Lit::Cap => "@CAP".into(),
            Lit::Null => "#null".into(),
            Lit::Bool(true) => "#true".into(),
            Lit::Bool(false) => "#false".into(),
            Lit::Int(i) => i.to_string(),
            Lit::Str(s) => format!("\"{}\"", gen::esc(s)),
            Lit::List(l) => format!("[{}]", l.iter().map(|x| x.render()).collect::<Vec<_>>().join(", ")),
            Lit::Set(l) => format!("{{{}}}", l.iter().map(|x| x.render()).collect::<Vec<_>>().join(", ")),
        }
    }
    fn cval(&self) -> CVal {
        match self {
            Lit::Cap => CVal::Null, // resolved per match by `resolve_lit`
            Lit::Null => CVal::Null,
            Lit::Bool(b) => CVal::Bool(*b),
            Lit::Int(i) => CVal::Int(*i),
            Lit::Str(s) => CVal::Str(s.clone()),
            Lit::List(l) => CVal::List(l.iter().map(|x| x.cval()).collect()),
            Lit::Set(l) => CVal::Set(l.iter().map(|x| x.cval()).collect()),
        }
    }
    fn value(&self) -> Value {
        match self {
            Lit::Cap => Value::Null,
            Lit::Null => Value::Null,
            Lit::Bool(b) => Value::Boolean(*b),
            Lit::Int(i) => Value::Integer(*i),
            Lit::Str(s) => Value::String(s.clone()),
            Lit::List(l) => Value::List(l.iter().map(|x| x.value()).collect()),
            Lit::Set(l) => Value::Set(l.iter().map(|x| x.value()).collect()),
        }
    }
    fn to_json(&self) -> J {
        match self {
            Lit::Cap => json!({"cap": true}),
            Lit::Null => json!(null),
            Lit::Bool(b) => json!(b),
            Lit::Int(i) => json!(i),
            Lit::Str(s) => json!(s),
            Lit::List(l) => json!(l.iter().map(|x| x.to_json()).collect::<Vec<_>>()),
            Lit::Set(l) => json!({"set": l.iter().map(|x| x.to_json()).collect::<Vec<_>>()}),
        }
    }
    fn from_json(j: &J) -> Lit {
        match j {
            J::Null => Lit::Null,
            J::Bool(b) => Lit::Bool(*b),
            J::Number(n) => Lit::Int(n.as_u64().unwrap_or(0) as u32),
            J::String(s) => Lit::Str(s.clone()),
            J::Array(a) => Lit::List(a.iter().map(Lit::from_json).collect()),
            J::Object(o) if o.contains_key("set") => Lit::Set(o["set"].as_array().map(|a| a.iter().map(Lit::from_json).collect()).unwrap_or_default()),
            J::Object(_) => Lit::Cap,
        }
    }
    fn from_cval(c: &CVal) -> Option<Lit> {
        Some(match c {
            CVal::Null => Lit::Null,
            CVal::Bool(b) => Lit::Bool(*b),
            CVal::Int(i) => Lit::Int(*i),
            // a generation-time placeholder for "the capture"
            CVal::Str(s) if s.starts_with('\u{0}') => Lit::Cap,
            CVal::Str(s) => Lit::Str(s.clone()),
            CVal::List(l) => Lit::List(l.iter().map(Lit::from_cval).collect::<Option<Vec<_>>>()?),
            // the same set, written in the reverse of its sorted order
            CVal::Set(l) => Lit::Set(l.iter().rev().map(Lit::from_cval).collect::<Option<Vec<_>>>()?),
            // "the capture again": whether that is the same node is decided at run time
            CVal::Syn { .. } => Lit::Cap,
            _ => return None,
        })
    }
}

fn gen_lit(r: &mut Rng) -> Lit {
    if r.chance(1, 8) {
        return Lit::Cap;
    }
    if r.chance(1, 10) {
        // sets, and sets whose elements are sets of equal size
        let n = r.range(2, 4);
        let mut els: Vec<Lit> = (0..n as u32).map(|i| if r.chance(1, 2) { Lit::Set(vec![Lit::Int(i)]) } else { Lit::Int(i) }).collect();
        if r.chance(1, 2) {
            els = (0..n as u32).map(|i| Lit::Set(vec![Lit::Int(i), Lit::Int(i + 10)])).collect();
        }
        r.shuffle(&mut els);
        return Lit::Set(els);
    }
    match r.below(6) {
        0 => Lit::Int(r.below(5) as u32),
        1 => Lit::Str((*r.pick(&["a", "b", "", "x y", "é"])).to_string()),
        2 => Lit::Bool(r.chance(1, 2)),
        3 => Lit::Null,
        4 => Lit::List((0..r.below(4)).map(|_| Lit::Int(r.below(3) as u32)).collect()),
        _ => Lit::Int(7),
    }
}

fn different(r: &mut Rng, l: &Lit) -> Lit {
    // half of the time a *near miss*: the same elements in another order or another kind of
    // collection, the same text as another type, a trailing blank
    if r.chance(1, 2) {
        let near = match l {
            Lit::List(v) if v.len() >= 2 => {
                let mut w = v.clone();
                w.reverse();
                Some(Lit::List(w))
            }
            Lit::List(v) if v.len() == 1 => Some(Lit::Set(v.clone())),
            Lit::Set(v) if v.len() == 1 => Some(Lit::List(v.clone())),
            Lit::Int(n) => Some(Lit::Str(n.to_string())),
            Lit::Str(t) if t.is_empty() => Some(Lit::Null),
            Lit::Str(t) => Some(Lit::Str(format!("{} ", t))),
            Lit::Null => Some(Lit::Bool(false)),
            Lit::Bool(b) => Some(Lit::Str(if *b { "#true" } else { "#false" }.to_string())),
            _ => None,
        };
        if let Some(n) = near {
            if &n != l {
                return n;
            }
        }
    }
    loop {
        let c = gen_lit(r);
        if &c != l && c != Lit::Cap {
            return c;
        }
    }
}

// ---------------------------------------------------------------------------------------------
// pre-population and touch programs

#[derive(Clone, Debug, PartialEq, Eq)]
pub enum Pre {
    Node,
    NodeAttr(u32, String, Lit),
    Edge(u32, u32),
    EdgeAttr(u32, u32, String, Lit),
}

/// a graph-node expression in a touch program: existing node (a global) or a local
#[derive(Clone, Debug, PartialEq, Eq)]
pub enum NodeX {
    Old(u32),
    New(usize),
}

impl NodeX {
    fn render(&self) -> String {
        match self {
            NodeX::Old(i) => format!("gn{}", i),
            NodeX::New(i) => format!("nn{}", i),
        }
    }
}

#[derive(Clone, Debug, PartialEq, Eq)]
pub enum Op {
    NewNode(usize),
    Edge(NodeX, NodeX),
    AttrNode(NodeX, Vec<(String, Lit)>),
    AttrEdge(NodeX, NodeX, Vec<(String, Lit)>),
    /// `for lv in [values] { attr (target) name = lv }` — one statement assigning several
    /// values in turn (target: a node, or an edge when the second field is set)
    LoopAttr(NodeX, Option<NodeX>, String, Vec<Lit>),
    /// `attr (target) sh = value` where `sh` is the shorthand `sh = v => sa = v, sb = "const"`
    /// (target: a node, or an edge when the second field is set)
    ShortAttr(NodeX, Option<NodeX>, Lit),
}

#[derive(Clone, Debug, PartialEq, Eq)]
pub enum Program {
    /// ops executed once (`(module)`) or once per pass_statement
    Touch { per_pass: bool, old_nodes: u32, ops: Vec<Op>, stamp: u32 },
    /// a generated program; `needs` graph-node globals gn0..
    Generated { text: String, globs: simrun::Globs },
}

#[derive(Clone, Debug, PartialEq, Eq)]
pub struct Step {
    pub program: Program,
    pub tree: usize,
    pub lazy: bool,
    pub cancel_at: Option<u64>,
    /// run with ExecutionConfig::debug_attributes(..): only the monotonicity invariants are
    /// judged then (the exact prediction does not model the added attributes, and strict mode
    /// legitimately reports a conflict when two statements create one edge)
    pub debug: bool,
}

fn render_touch(per_pass: bool, old_nodes: u32, ops: &[Op], stamp: u32) -> String {
    let mut used_old: Vec<u32> = Vec::new();
    let mut note = |x: &NodeX| {
        if let NodeX::Old(i) = x {
            if !used_old.contains(i) {
                used_old.push(*i)
            }
        }
    };
    for op in ops {
        match op {
            Op::Edge(a, b) | Op::AttrEdge(a, b, _) => {
                note(a);
                note(b)
            }
            Op::AttrNode(a, _) => note(a),
            Op::LoopAttr(a, b, _, _) | Op::ShortAttr(a, b, _) => {
                note(a);
                if let Some(b) = b {
                    note(b)
                }
            }
            _ => {}
        }
    }
    let _ = old_nodes;
    used_old.sort();
    let mut out = String::new();
    for i in &used_old {
        out.push_str(&format!("global gn{}\n", i));
    }
    if ops.iter().any(|o| matches!(o, Op::ShortAttr(..))) {
        out.push_str("attribute sh = shv => sa = shv, sb = \"const\"\n");
    }
    out.push('\n');
    out.push_str(if per_pass { "(pass_statement) @_p\n{\n" } else { "(module) @_m\n{\n" });
    for op in ops {
        match op {
            Op::NewNode(i) => {
                out.push_str(&format!("  node nn{}\n  attr (nn{}) gen = {}\n", i, i, stamp));
            }
            Op::Edge(a, b) => out.push_str(&format!("  edge {} -> {}\n", a.render(), b.render())),
            Op::AttrNode(a, at) => out.push_str(&format!(
                "  attr ({}) {}\n",
                a.render(),
                at.iter().map(|(k, v)| format!("{} = {}", k, v.render())).collect::<Vec<_>>().join(", ")
            )),
            Op::AttrEdge(a, b, at) => out.push_str(&format!(
                "  attr ({} -> {}) {}\n",
                a.render(),
                b.render(),
                at.iter().map(|(k, v)| format!("{} = {}", k, v.render())).collect::<Vec<_>>().join(", ")
            )),
            Op::ShortAttr(a, b, v) => {
                let target = match b {
                    Some(b) => format!("{} -> {}", a.render(), b.render()),
                    None => a.render(),
                };
                out.push_str(&format!("  attr ({}) sh = {}\n", target, v.render()));
            }
            Op::LoopAttr(a, b, k, vals) => {
                let target = match b {
                    Some(b) => format!("{} -> {}", a.render(), b.render()),
                    None => a.render(),
                };
                out.push_str(&format!(
                    "  for lv in [{}] {{\n    attr ({}) {} = lv\n  }}\n",
                    vals.iter().map(|v| v.render()).collect::<Vec<_>>().join(", "),
                    target,
                    k
                ));
            }
        }
    }
    out.push_str("}\n");
    out.replace("@CAP", if per_pass { "@_p" } else { "@_m" })
}

impl Program {
    fn text(&self) -> String {
        match self {
            Program::Touch { per_pass, old_nodes, ops, stamp } => render_touch(*per_pass, *old_nodes, ops, *stamp),
            Program::Generated { text, .. } => text.clone(),
        }
    }
}

// ---------------------------------------------------------------------------------------------
// model

#[derive(Clone, Debug, Default, PartialEq, Eq)]
struct MNode {
    attrs: CAttrs,
    edges: BTreeMap<u32, CAttrs>,
}

#[derive(Clone, Debug, Default, PartialEq, Eq)]
struct Model {
    nodes: Vec<MNode>,
}

impl Model {
    fn from_cgraph(g: &CGraph) -> Model {
        Model {
            nodes: g
                .nodes
                .iter()
                .map(|n| MNode { attrs: n.attrs.clone(), edges: n.edges.iter().cloned().collect() })
                .collect(),
        }
    }
    fn to_cgraph(&self) -> CGraph {
        CGraph {
            nodes: self
                .nodes
                .iter()
                .map(|n| CNode { attrs: n.attrs.clone(), edges: n.edges.iter().map(|(k, v)| (*k, v.clone())).collect() })
                .collect(),
        }
    }
}

#[derive(Default, Debug)]
struct Touches {
    edge_recreated: u64,
    equal_reassigned: u64,
    conflicting: u64,
    conflict_in_one_statement: u64,
    shorthand_expansions: u64,
    touched_old: bool,
}

/// Applies a touch program `matches` times. Returns Err(description) at the first conflict.
/// Strict mode runs the operations in statement order.  Lazy mode creates the nodes while the
/// matches are processed, then evaluates every deferred `edge`, then every deferred `attr` —
/// so an attribute may precede the `edge` statement that creates its edge.
fn apply_touch(m: &mut Model, ops: &[Op], stamp: u32, caps: &[CVal], lazy: bool, t: &mut Touches) -> Result<(), String> {
    apply_touch_dbg(m, ops, stamp, caps, lazy, false, t)
}

/// `debug`: the step runs with debug attributes; of those the model knows the variable-name
/// attribute of a node created by `node nn<i>` (DBG_VAR = "nn<i>"); location and match-node
/// attributes are not predicted (see `debug_superset`)
fn apply_touch_dbg(m: &mut Model, ops: &[Op], stamp: u32, caps: &[CVal], lazy: bool, debug: bool, t: &mut Touches) -> Result<(), String> {
    let ph = |p: u8| if debug { p | DEBUG_BIT } else { p };
    if !lazy {
        return apply_phase(m, ops, stamp, caps, ph(0), &mut Vec::new(), t);
    }
    let mut locals: Vec<BTreeMap<usize, u32>> = Vec::new();
    apply_phase(m, ops, stamp, caps, ph(1), &mut locals, t)?;
    apply_phase(m, ops, stamp, caps, ph(2), &mut locals, t)?;
    apply_phase(m, ops, stamp, caps, ph(3), &mut locals, t)
}

const DEBUG_BIT: u8 = 0x80;
pub const DBG_LOC: &str = "dbg_loc";
pub const DBG_VAR: &str = "dbg_var";
pub const DBG_MATCH: &str = "dbg_match";

/// Comparison for a step run with debug attributes: the observed graph must be the predicted
/// one plus, possibly, attributes named DBG_LOC / DBG_MATCH (whose values are not predicted).
fn debug_superset(got: &CGraph, want: &CGraph) -> Option<String> {
    if got.nodes.len() != want.nodes.len() {
        return Some(format!("{} nodes, predicted {}", got.nodes.len(), want.nodes.len()));
    }
    let cmp = |what: String, g: &CAttrs, w: &CAttrs| -> Option<String> {
        for (k, v) in w {
            match g.get(k) {
                Some(x) if x == v => {}
                Some(x) => return Some(format!("{}: attribute {} is {:?}, predicted {:?}", what, k, x, v)),
                None => return Some(format!("{}: attribute {} = {:?} is missing", what, k, v)),
            }
        }
        for (k, v) in g {
            if !w.contains_key(k) && k != DBG_LOC && k != DBG_MATCH {
                return Some(format!("{}: unpredicted attribute {} = {:?}", what, k, v));
            }
        }
        None
    };
    for (i, (g, w)) in got.nodes.iter().zip(want.nodes.iter()).enumerate() {
        if let Some(d) = cmp(format!("node {}", i), &g.attrs, &w.attrs) {
            return Some(d);
        }
        let gs: Vec<u32> = g.edges.iter().map(|(k, _)| *k).collect();
        let ws: Vec<u32> = w.edges.iter().map(|(k, _)| *k).collect();
        if gs != ws {
            return Some(format!("node {} has edges to {:?}, predicted {:?}", i, gs, ws));
        }
        for ((s, ga), (_, wa)) in g.edges.iter().zip(w.edges.iter()) {
            if let Some(d) = cmp(format!("edge {} -> {}", i, s), ga, wa) {
                return Some(d);
            }
        }
    }
    None
}

/// With debug attributes every `edge` statement also assigns its own location to the edge, so
/// in strict mode two different statements creating one edge, or a statement re-creating an edge
/// that already carries a location, may legitimately conflict. (Lazy mode keeps an existing edge
/// as it is.)
fn debug_edge_conflict_possible(ops: &[Op], before: &CGraph) -> bool {
    let mut seen: Vec<(&NodeX, &NodeX)> = Vec::new();
    for op in ops {
        if let Op::Edge(a, b) = op {
            if seen.contains(&(a, b)) {
                return true;
            }
            seen.push((a, b));
            if let (NodeX::Old(x), NodeX::Old(y)) = (a, b) {
                if let Some(n) = before.nodes.get(*x as usize) {
                    if n.edges.iter().any(|(s, at)| s == y && at.contains_key(DBG_LOC)) {
                        return true;
                    }
                }
            }
        }
    }
    false
}

/// In generation-time scratch models the capture is a placeholder; it is assumed to match a
/// stored syntax node (the real comparison happens when the history runs).
fn placeholder(i: usize) -> CVal {
    CVal::Str(format!("\u{0}cap{}", i))
}
fn same_value(old: &CVal, v: &CVal) -> bool {
    old == v || (matches!(v, CVal::Str(s) if s.starts_with('\u{0}')) && matches!(old, CVal::Syn { .. }))
}

fn resolve_lit(l: &Lit, cap: &CVal) -> CVal {
    match l {
        Lit::Cap => cap.clone(),
        Lit::List(v) => CVal::List(v.iter().map(|x| resolve_lit(x, cap)).collect()),
        Lit::Set(v) => CVal::Set(v.iter().map(|x| resolve_lit(x, cap)).collect()),
        other => other.cval(),
    }
}

/// phase 0: everything in order; 1: nodes only (records locals); 2: edges only; 3: attributes only
fn apply_phase(m: &mut Model, ops: &[Op], stamp: u32, caps: &[CVal], phase: u8, saved: &mut Vec<BTreeMap<usize, u32>>, t: &mut Touches) -> Result<(), String> {
    let debug = phase & DEBUG_BIT != 0;
    let phase = phase & !DEBUG_BIT;
    let matches = caps.len();
    let old_count = m.nodes.len() as u32;
    if phase >= 2 && saved.len() != matches {
        return Err("internal: locals not recorded".into());
    }
    // a program generated against a stale image may name a node that does not exist: its
    // global is then not supplied and execution fails before doing anything
    let in_range = |x: &NodeX| !matches!(x, NodeX::Old(i) if *i >= old_count);
    for op in ops {
        let ok = match op {
            Op::NewNode(_) => true,
            Op::Edge(a, b) | Op::AttrEdge(a, b, _) => in_range(a) && in_range(b),
            Op::AttrNode(a, _) => in_range(a),
            Op::LoopAttr(a, b, _, _) | Op::ShortAttr(a, b, _) => in_range(a) && b.as_ref().map(|b| in_range(b)).unwrap_or(true),
        };
        if !ok {
            return Err("the program refers to a graph node that does not exist (global not supplied)".into());
        }
    }
    // the range check and the "old" boundary refer to the image before the step
    let old_count = if phase >= 2 { m.nodes.len() as u32 - saved.iter().map(|l| l.len() as u32).sum::<u32>() } else { old_count };
    for mi in 0..matches {
        let cap = &caps[mi];
        let mut locals: BTreeMap<usize, u32> = if phase >= 2 { saved[mi].clone() } else { BTreeMap::new() };
        let resolve = |x: &NodeX, locals: &BTreeMap<usize, u32>| -> u32 {
            match x {
                NodeX::Old(i) => *i,
                NodeX::New(i) => locals[i],
            }
        };
        for op in ops {
            let wanted = match (phase, op) {
                (0, _) => true,
                (1, Op::NewNode(_)) => true,
                (2, Op::Edge(..)) => true,
                (3, Op::AttrNode(..)) | (3, Op::AttrEdge(..)) | (3, Op::LoopAttr(..)) | (3, Op::ShortAttr(..)) => true,
                _ => false,
            };
            if !wanted {
                continue;
            }
            match op {
                Op::NewNode(i) => {
                    let mut n = MNode::default();
                    n.attrs.insert("gen".into(), CVal::Int(stamp));
                    if debug {
                        n.attrs.insert(DBG_VAR.into(), CVal::Str(format!("nn{}", i)));
                    }
                    m.nodes.push(n);
                    locals.insert(*i, m.nodes.len() as u32 - 1);
                }
                Op::Edge(a, b) => {
                    let (a, b) = (resolve(a, &locals), resolve(b, &locals));
                    if m.nodes[a as usize].edges.contains_key(&b) {
                        if a < old_count && b < old_count {
                            t.edge_recreated += 1;
                            t.touched_old = true;
                        }
                    } else {
                        m.nodes[a as usize].edges.insert(b, CAttrs::new());
                    }
                }
                Op::AttrNode(a, at) => {
                    let a = resolve(a, &locals);
                    for (k, v) in at {
                        let v = resolve_lit(v, cap);
                        if a < old_count {
                            t.touched_old = true;
                        }
                        match m.nodes[a as usize].attrs.get(k) {
                            None => {
                                m.nodes[a as usize].attrs.insert(k.clone(), v);
                            }
                            Some(old) if same_value(old, &v) => t.equal_reassigned += 1,
                            Some(old) => {
                                t.conflicting += 1;
                                return Err(format!("attribute {} of node {} holds {:?}, assigned {:?}", k, a, old, v));
                            }
                        }
                    }
                }
                Op::ShortAttr(a, b, v) => {
                    let a = resolve(a, &locals);
                    let b = b.as_ref().map(|b| resolve(b, &locals));
                    if a < old_count {
                        t.touched_old = true;
                    }
                    t.shorthand_expansions += 1;
                    for (k, v) in [("sa".to_string(), resolve_lit(v, cap)), ("sb".to_string(), CVal::Str("const".into()))] {
                        let target: &mut CAttrs = match b {
                            None => &mut m.nodes[a as usize].attrs,
                            Some(b) => match m.nodes[a as usize].edges.get_mut(&b) {
                                Some(e) => e,
                                None => return Err(format!("edge {} -> {} does not exist", a, b)),
                            },
                        };
                        match target.get(&k) {
                            None => {
                                target.insert(k, v);
                            }
                            Some(old) if same_value(old, &v) => t.equal_reassigned += 1,
                            Some(old) => {
                                t.conflicting += 1;
                                return Err(format!("attribute {} (expanded from a shorthand) holds {:?}, assigned {:?}", k, old, v));
                            }
                        }
                    }
                }
                Op::LoopAttr(a, b, k, vals) => {
                    let a = resolve(a, &locals);
                    let b = b.as_ref().map(|b| resolve(b, &locals));
                    if a < old_count {
                        t.touched_old = true;
                    }
                    for v in vals {
                        let v = resolve_lit(v, cap);
                        let target: &mut CAttrs = match b {
                            None => &mut m.nodes[a as usize].attrs,
                            Some(b) => match m.nodes[a as usize].edges.get_mut(&b) {
                                Some(e) => e,
                                None => return Err(format!("edge {} -> {} does not exist", a, b)),
                            },
                        };
                        match target.get(k) {
                            None => {
                                target.insert(k.clone(), v);
                            }
                            Some(old) if same_value(old, &v) => t.equal_reassigned += 1,
                            Some(old) => {
                                t.conflicting += 1;
                                t.conflict_in_one_statement += 1;
                                return Err(format!("attribute {} holds {:?}, the loop assigns {:?}", k, old, v));
                            }
                        }
                    }
                }
                Op::AttrEdge(a, b, at) => {
                    let (a, b) = (resolve(a, &locals), resolve(b, &locals));
                    if a < old_count && b < old_count {
                        t.touched_old = true;
                    }
                    for (k, v) in at {
                        let v = resolve_lit(v, cap);
                        let e = match m.nodes[a as usize].edges.get_mut(&b) {
                            Some(e) => e,
                            None => return Err(format!("edge {} -> {} does not exist", a, b)),
                        };
                        match e.get(k) {
                            None => {
                                e.insert(k.clone(), v);
                            }
                            Some(old) if same_value(old, &v) => t.equal_reassigned += 1,
                            Some(old) => {
                                t.conflicting += 1;
                                return Err(format!("attribute {} of edge {}->{} holds {:?}, assigned {:?}", k, a, b, old, v));
                            }
                        }
                    }
                }
            }
        }
        if phase == 1 {
            saved.push(locals);
        }
    }
    Ok(())
}

fn gen_pre(r: &mut Rng) -> Vec<Pre> {
    let n = r.below(7);
    let mut out = Vec::new();
    for _ in 0..n {
        out.push(Pre::Node);
    }
    if n == 0 {
        return out;
    }
    let n = n as u32;
    for _ in 0..r.below(5) {
        out.push(Pre::NodeAttr(r.below(n as usize) as u32, (*r.pick(&["w", "k", "name"])).to_string(), gen_lit(r)));
    }
    let mut edges: Vec<(u32, u32)> = Vec::new();
    for _ in 0..r.below(6) {
        let e = (r.below(n as usize) as u32, r.below(n as usize) as u32);
        if !edges.contains(&e) {
            edges.push(e);
            out.push(Pre::Edge(e.0, e.1));
        }
    }
    for e in edges.clone() {
        if r.chance(2, 3) {
            out.push(Pre::EdgeAttr(e.0, e.1, (*r.pick(&["w", "prec"])).to_string(), gen_lit(r)));
        }
    }
    // de-duplicate attribute names per element (the API would report a conflict)
    let mut seen = std::collections::BTreeSet::new();
    out.retain(|p| match p {
        Pre::NodeAttr(i, k, _) => seen.insert(format!("n{}:{}", i, k)),
        Pre::EdgeAttr(a, b, k, _) => seen.insert(format!("e{}>{}:{}", a, b, k)),
        _ => true,
    });
    out
}

/// Generates a touch program against the model's current image.
fn gen_touch(r: &mut Rng, m: &Model, stamp: u32, conflict: bool) -> (bool, Vec<Op>) {
    let old = m.nodes.len() as u32;
    let per_pass = r.chance(1, 3);
    let mut ops: Vec<Op> = Vec::new();
    let mut news = 0usize;
    let n_ops = r.range(2, 8);
    // scratch model to keep operations consistent (edges exist before their attributes, no
    // accidental conflicts)
    let mut scratch = m.clone();
    let mut t = Touches::default();
    let pick_node = |r: &mut Rng, news: usize| -> Option<NodeX> {
        let total = old as usize + news;
        if total == 0 {
            return None;
        }
        let i = r.below(total);
        Some(if i < old as usize { NodeX::Old(i as u32) } else { NodeX::New(i - old as usize) })
    };
    let existing_edges = |m: &Model| -> Vec<(u32, u32)> {
        let mut v = Vec::new();
        for (i, n) in m.nodes.iter().enumerate() {
            if (i as u32) < old {
                for s in n.edges.keys() {
                    if *s < old {
                        v.push((i as u32, *s));
                    }
                }
            }
        }
        v
    };
    for _ in 0..n_ops {
        let op = match r.below(9) {
            0 | 1 => {
                news += 1;
                Some(Op::NewNode(news - 1))
            }
            2 => {
                // re-create an existing edge
                let es = existing_edges(m);
                if es.is_empty() {
                    None
                } else {
                    let e = *r.pick(&es);
                    Some(Op::Edge(NodeX::Old(e.0), NodeX::Old(e.1)))
                }
            }
            3 => match (pick_node(r, news), pick_node(r, news)) {
                (Some(a), Some(b)) => Some(Op::Edge(a, b)),
                _ => None,
            },
            4 => {
                // equal value on an existing node attribute
                let cands: Vec<(u32, String, Lit)> = m
                    .nodes
                    .iter()
                    .enumerate()
                    .flat_map(|(i, n)| n.attrs.iter().filter_map(move |(k, v)| Lit::from_cval(v).map(|l| (i as u32, k.clone(), l))))
                    .collect();
                if cands.is_empty() {
                    None
                } else {
                    let c = r.pick(&cands).clone();
                    Some(Op::AttrNode(NodeX::Old(c.0), vec![(c.1, c.2)]))
                }
            }
            5 => {
                // equal value on an existing edge attribute (together with re-creating the edge)
                let mut cands: Vec<(u32, u32, String, Lit)> = Vec::new();
                for (i, n) in m.nodes.iter().enumerate() {
                    for (s, at) in &n.edges {
                        for (k, v) in at {
                            if let Some(l) = Lit::from_cval(v) {
                                cands.push((i as u32, *s, k.clone(), l));
                            }
                        }
                    }
                }
                if cands.is_empty() {
                    None
                } else {
                    let c = r.pick(&cands).clone();
                    if r.chance(1, 2) {
                        ops.push(Op::Edge(NodeX::Old(c.0), NodeX::Old(c.1)));
                    }
                    Some(Op::AttrEdge(NodeX::Old(c.0), NodeX::Old(c.1), vec![(c.2, c.3)]))
                }
            }
            7 if r.chance(1, 3) => {
                // a shorthand that expands to two attributes
                pick_node(r, news).map(|a| Op::ShortAttr(a, None, gen_lit(r)))
            }
            6 if r.chance(1, 3) => {
                // one statement assigning the same (equal) value several times
                let es = existing_edges(m);
                if !es.is_empty() && r.chance(1, 2) {
                    // ... on an existing edge
                    let e = *r.pick(&es);
                    let v = gen_lit(r);
                    Some(Op::LoopAttr(NodeX::Old(e.0), Some(NodeX::Old(e.1)), format!("l{}_{}", stamp, ops.len()), vec![v.clone(), v.clone(), v]))
                } else {
                    pick_node(r, news).map(|a| {
                        let v = gen_lit(r);
                        Op::LoopAttr(a, None, format!("l{}_{}", stamp, ops.len()), vec![v.clone(), v.clone(), v])
                    })
                }
            }
            6 | 7 => {
                // fresh attribute(s) on some node
                pick_node(r, news).map(|a| {
                    let k = r.range(1, 2);
                    Op::AttrNode(a, (0..k).map(|i| (format!("f{}_{}_{}", stamp, ops.len(), i), gen_lit(r))).collect())
                })
            }
            _ => {
                // fresh attribute on an edge that exists in the scratch model
                let mut es: Vec<(NodeX, NodeX)> = Vec::new();
                for (i, n) in scratch.nodes.iter().enumerate() {
                    for s in n.edges.keys() {
                        let f = |x: u32| if x < old { Some(NodeX::Old(x)) } else { None };
                        if let (Some(a), Some(b)) = (f(i as u32), f(*s)) {
                            es.push((a, b));
                        }
                    }
                }
                if es.is_empty() {
                    None
                } else {
                    let e = r.pick(&es).clone();
                    Some(Op::AttrEdge(e.0, e.1, vec![(format!("g{}_{}", stamp, ops.len()), gen_lit(r))]))
                }
            }
        };
        if let Some(op) = op {
            // keep only operations the scratch model accepts (no accidental conflict)
            let mut s2 = scratch.clone();
            let mut all = ops.clone();
            all.push(op.clone());
            let mut base = m.clone();
            let caps: Vec<CVal> = (0..if per_pass { 2 } else { 1 }).map(placeholder).collect();
            if apply_touch(&mut base, &all, stamp, &caps, false, &mut t).is_ok() {
                ops.push(op);
                s2 = base;
            }
            scratch = s2;
        }
    }
    if conflict {
        // one deliberate conflicting assignment against an element that has an attribute
        let mut cands: Vec<Op> = Vec::new();
        for (i, n) in m.nodes.iter().enumerate() {
            for (k, v) in &n.attrs {
                if k == "gen" {
                    continue; // the step stamp is an observation channel of the oracle
                }
                if let Some(l) = Lit::from_cval(v) {
                    cands.push(Op::AttrNode(NodeX::Old(i as u32), vec![(k.clone(), different(r, &l))]));
                }
            }
            for (s, at) in &n.edges {
                for (k, v) in at {
                    if let Some(l) = Lit::from_cval(v) {
                        cands.push(Op::AttrEdge(NodeX::Old(i as u32), NodeX::Old(*s), vec![(k.clone(), different(r, &l))]));
                    }
                }
            }
        }
        // conflicts that live inside ONE statement: a name repeated with different values, a
        // pre-existing value preceded by a different one, a loop assigning different values
        let target = pick_node(r, news);
        let has_sa: Vec<u32> = m.nodes.iter().enumerate().filter(|(_, n)| n.attrs.contains_key("sa")).map(|(i, _)| i as u32).collect();
        match (r.below(6), target) {
            (5, _) if !has_sa.is_empty() => {
                // the expansion of a shorthand hits an attribute that holds another value
                let i = *r.pick(&has_sa);
                let old = m.nodes[i as usize].attrs.get("sa").and_then(Lit::from_cval).unwrap_or(Lit::Null);
                ops.push(Op::ShortAttr(NodeX::Old(i), None, different(r, &old)));
            }
            (0, Some(t)) => {
                let v = gen_lit(r);
                let w = different(r, &v);
                ops.push(Op::AttrNode(t, vec![(format!("d{}", stamp), v), (format!("d{}", stamp), w)]));
            }
            (1, Some(t)) => {
                let v = gen_lit(r);
                let w = different(r, &v);
                let es = existing_edges(m);
                if !es.is_empty() && r.chance(1, 2) {
                    // the loop assigns different values to an attribute of an existing edge
                    let e = *r.pick(&es);
                    ops.push(Op::LoopAttr(NodeX::Old(e.0), Some(NodeX::Old(e.1)), format!("d{}", stamp), vec![v.clone(), v, w]));
                } else {
                    ops.push(Op::LoopAttr(t, None, format!("d{}", stamp), vec![v.clone(), v, w]));
                }
            }
            (2, _) if !cands.is_empty() => {
                // `attr (n) k = <different>, k = <the existing value>`
                let c = r.pick(&cands).clone();
                match c {
                    Op::AttrNode(t, at) => {
                        let (k, w) = at[0].clone();
                        let existing = m.nodes.iter().enumerate().find_map(|(i, n)| if NodeX::Old(i as u32) == t { n.attrs.get(&k).and_then(Lit::from_cval) } else { None });
                        match existing {
                            Some(e) => ops.push(Op::AttrNode(t, vec![(k.clone(), w), (k, e)])),
                            None => ops.push(Op::AttrNode(t, vec![(k, w)])),
                        }
                    }
                    other => ops.push(other),
                }
            }
            _ => {
                if cands.is_empty() {
                    // conflict within the step itself, on a new node
                    ops.push(Op::NewNode(news));
                    ops.push(Op::AttrNode(NodeX::New(news), vec![("c".into(), Lit::Int(1))]));
                    ops.push(Op::AttrNode(NodeX::New(news), vec![("c".into(), Lit::Int(2))]));
                } else {
                    let pos = r.below(ops.len() + 1);
                    ops.insert(pos, r.pick(&cands).clone());
                }
            }
        }
    }
    (per_pass, ops)
}

// ---------------------------------------------------------------------------------------------
// execution of a history

#[derive(Clone, Debug)]
pub struct History {
    pub pre: Vec<Pre>,
    pub sources: Vec<String>,
    pub steps: Vec<Step>,
    pub hash_seed: u64,
}

pub struct Found {
    pub class: &'static str,
    pub step: usize,
    pub detail: String,
}

#[derive(Default)]
pub struct Stats {
    pub executions: u64,
    pub edge_recreated: u64,
    pub equal_reassigned: u64,
    pub conflicting: u64,
    pub conflict_in_one_statement: u64,
    pub shorthand_expansions: u64,
    pub hub_edges_recreated: u64,
    pub cancelled_midway: u64,
    pub step_after_failure: u64,
    pub new_after_existing: u64,
    pub lazy_nonempty: u64,
    pub touched_old: bool,
    pub discarded: bool,
    pub transcript: u64,
    pub polls: u64,
    pub exact_checks: u64,
    pub debug_steps: u64,
    pub debug_exact_checks: u64,
    pub debug_name_clash: u64,
    pub debug_edge_conflict_excused: u64,
}

fn pass_count(source: &str) -> usize {
    let tree = simrun::parse_python(source);
    let mut n = 0;
    let mut cursor = tree.walk();
    let mut done = false;
    while !done {
        if cursor.node().kind() == "pass_statement" {
            n += 1;
        }
        if cursor.goto_first_child() {
            continue;
        }
        loop {
            if cursor.goto_next_sibling() {
                break;
            }
            if !cursor.goto_parent() {
                done = true;
                break;
            }
        }
    }
    n
}

fn invariants(before: &CGraph, after: &CGraph, step_no: u32, duplicate_attr_reported: bool) -> Option<(&'static str, String)> {
    if after.nodes.len() < before.nodes.len() {
        return Some(("node-lost", format!("node count shrank from {} to {}", before.nodes.len(), after.nodes.len())));
    }
    let mut changed = 0;
    let mut first_change = String::new();
    for (i, b) in before.nodes.iter().enumerate() {
        let a = &after.nodes[i];
        for (k, v) in &b.attrs {
            match a.attrs.get(k) {
                None => return Some(("attribute-lost", format!("attribute {} of pre-existing node {} disappeared (was {:?})", k, i, v))),
                Some(v2) if v2 != v => {
                    changed += 1;
                    first_change = format!("attribute {} of pre-existing node {} changed from {:?} to {:?}", k, i, v, v2);
                }
                _ => {}
            }
        }
        for (s, eb) in &b.edges {
            match a.edges.iter().find(|(s2, _)| s2 == s) {
                None => return Some(("edge-lost", format!("pre-existing edge {} -> {} disappeared", i, s))),
                Some((_, ea)) => {
                    for (k, v) in eb {
                        match ea.get(k) {
                            None => {
                                return Some((
                                    "attribute-lost",
                                    format!("attribute {} of pre-existing edge {} -> {} disappeared (was {:?})", k, i, s, v),
                                ))
                            }
                            Some(v2) if v2 != v => {
                                changed += 1;
                                first_change = format!("attribute {} of pre-existing edge {} -> {} changed from {:?} to {:?}", k, i, s, v, v2);
                            }
                            _ => {}
                        }
                    }
                }
            }
        }
    }
    if changed > 1 || (changed == 1 && !duplicate_attr_reported) {
        return Some(("attribute-changed", first_change));
    }
    let count = after.nodes.len() as u32;
    for (i, n) in after.nodes.iter().enumerate() {
        for (s, ea) in &n.edges {
            if *s >= count {
                return Some(("dangling-edge", format!("edge {} -> {} points at a node that does not exist ({} nodes)", i, s, count)));
            }
            for (k, v) in ea {
                if let Some(g) = dangling_ref(v, count) {
                    return Some(("dangling-reference", format!("attribute {} of edge {} -> {} refers to graph node {} of {}", k, i, s, g, count)));
                }
            }
        }
        for (k, v) in &n.attrs {
            if let Some(g) = dangling_ref(v, count) {
                return Some(("dangling-reference", format!("attribute {} of node {} refers to graph node {} of {}", k, i, g, count)));
            }
        }
        for w in n.edges.windows(2) {
            if w[0].0 == w[1].0 {
                return Some(("edges-not-a-set", format!("node {} has two edges to node {}", i, w[0].0)));
            }
        }
        if let Some(CVal::Int(g)) = n.attrs.get("gen") {
            if *g == step_no && i < before.nodes.len() {
                return Some(("numbering", format!("node {} stamped by step {} has an index below the {} pre-existing nodes", i, step_no, before.nodes.len())));
            }
        }
    }
    None
}

fn dangling_ref(v: &CVal, count: u32) -> Option<u32> {
    match v {
        CVal::GNode(g) if *g >= count => Some(*g),
        CVal::List(l) => l.iter().find_map(|x| dangling_ref(x, count)),
        CVal::Set(l) => l.iter().find_map(|x| dangling_ref(x, count)),
        _ => None,
    }
}

fn run_history_here(h: &History) -> (Stats, Option<Found>) {
    let mut st = Stats::default();
    let trees: Vec<tree_sitter::Tree> = h.sources.iter().map(|s| simrun::parse_python(s)).collect();
    let passes: Vec<usize> = h.sources.iter().map(|s| pass_count(s)).collect();
    let roots: Vec<CVal> = trees.iter().map(|t| canon::syn_with_id(&t.root_node())).collect();
    let pass_nodes: Vec<Vec<CVal>> = trees
        .iter()
        .map(|t| {
            let mut v = Vec::new();
            let mut cursor = t.walk();
            let mut done = false;
            while !done {
                if cursor.node().kind() == "pass_statement" {
                    v.push(canon::syn_with_id(&cursor.node()));
                }
                if cursor.goto_first_child() {
                    continue;
                }
                loop {
                    if cursor.goto_next_sibling() {
                        break;
                    }
                    if !cursor.goto_parent() {
                        done = true;
                        break;
                    }
                }
            }
            v
        })
        .collect();
    let fns = simrun::functions();
    let mut graph: Graph = Graph::new();
    // pre-populate through the public API
    let mut refs = Vec::new();
    for p in &h.pre {
        match p {
            Pre::Node => refs.push(graph.add_graph_node()),
            Pre::NodeAttr(i, k, v) => {
                let _ = graph[refs[*i as usize]].attributes.add(Identifier::from(k.as_str()), v.value());
            }
            Pre::Edge(a, b) => {
                let _ = graph[refs[*a as usize]].add_edge(refs[*b as usize]);
            }
            Pre::EdgeAttr(a, b, k, v) => {
                if let Some(e) = graph[refs[*a as usize]].get_edge_mut(refs[*b as usize]) {
                    let _ = e.attributes.add(Identifier::from(k.as_str()), v.value());
                }
            }
        }
    }
    let mut before = canon::cgraph_ids(&graph);
    let mut prev_failed = false;
    let mut th = 0u64;
    for (si, step) in h.steps.iter().enumerate() {
        let step_no = si as u32 + 1;
        let text = step.program.text();
        let file = match simrun::load(&text) {
            Ok(f) => f,
            Err(e) => {
                st.discarded = true;
                let _ = e;
                return (st, None);
            }
        };
        let node_refs: Vec<_> = graph.iter_nodes().collect();
        let globs: simrun::Globs = match &step.program {
            Program::Touch { .. } => (0..before.nodes.len() as u32).map(|i| (format!("gn{}", i), GVal::GNode(i))).collect(),
            Program::Generated { globs, .. } => globs.clone(),
        };
        // supply only declared globals that exist
        let declared: Vec<String> = file.globals.iter().map(|g| g.name.as_str().to_string()).collect();
        let globs: simrun::Globs = globs
            .into_iter()
            .filter(|(k, v)| declared.contains(k) && !matches!(v, GVal::GNode(i) if *i as usize >= node_refs.len()))
            .collect();
        let vars = simrun::make_variables(&globs, &node_refs);
        let mut config = ExecutionConfig::new(&fns, &vars).lazy(step.lazy);
        if step.debug {
            config = config.debug_attributes(
                Identifier::from("dbg_loc"),
                Identifier::from("dbg_var"),
                Identifier::from("dbg_match"),
            );
            st.debug_steps += 1;
        }
        let flag = match step.cancel_at {
            Some(k) => SimFlag::failing_from(k),
            None => SimFlag::counting(),
        };
        if step.lazy && !before.nodes.is_empty() {
            st.lazy_nonempty += 1;
        }
        simrun::log_clear();
        let res = std::panic::catch_unwind(std::panic::AssertUnwindSafe(|| {
            file.execute_into(&mut graph, &trees[step.tree], &h.sources[step.tree], &config, &flag)
        }));
        simrun::log_clear();
        st.executions += 1;
        st.polls += flag.polls.get();
        let after = canon::cgraph_ids(&graph);
        let outcome = match &res {
            Ok(Ok(())) => Outcome::Graph(after.clone()),
            Ok(Err(e)) => Outcome::Error(canon::cerr(e)),
            Err(p) => Outcome::Panic(entropy::panic_message(p)),
        };
        // the transcript must not contain node ids (heap addresses)
        th = rng::mix(
            th,
            rng::hash_str(&match &outcome {
                Outcome::Graph(_) => canon::cgraph(&graph).to_json().to_string(),
                other => format!("{:?}", other),
            }),
        );
        if let Outcome::Panic(m) = &outcome {
            if si == 0 && before.nodes.is_empty() && step.cancel_at.is_none() {
                st.discarded = true;
                return (st, None);
            }
            return (st, Some(Found { class: "panic-in-history", step: si, detail: format!("step {} ({}) panicked instead of returning a graph or an error: {}", step_no, if step.lazy { "lazy" } else { "strict" }, m) }));
        }
        let dup_reported = matches!(&outcome, Outcome::Error(e) if e.variant == "DuplicateAttribute");
        if let Some((class, d)) = invariants(&before, &after, step_no, dup_reported) {
            return (st, Some(Found { class, step: si, detail: format!("after step {} ({}, {}): {}", step_no, if step.lazy { "lazy" } else { "strict" }, outcome.class(), d) }));
        }
        if after.nodes.len() > before.nodes.len() && !before.nodes.is_empty() {
            st.new_after_existing += 1;
        }
        if prev_failed {
            st.step_after_failure += 1;
        }
        let cancelled = matches!(&outcome, Outcome::Error(e) if e.cancelled_at.is_some());
        if cancelled && after != before {
            st.cancelled_midway += 1;
        }
        // exact prediction for uncancelled touch steps
        if let Program::Touch { per_pass, ops, stamp, .. } = &step.program {
            if !cancelled {
                let mut model = Model::from_cgraph(&before);
                let mut t = Touches::default();
                let matches = if *per_pass { passes[step.tree] } else { 1 };
                let caps: Vec<CVal> = if *per_pass { pass_nodes[step.tree].clone() } else { vec![roots[step.tree].clone()] };
                let _ = matches;
                let predicted = apply_touch_dbg(&mut model, ops, *stamp, &caps, step.lazy, step.debug, &mut t);
                if step.debug {
                    st.debug_exact_checks += 1;
                    if ops.iter().any(|o| matches!(o, Op::AttrNode(_, at) | Op::AttrEdge(_, _, at) if at.iter().any(|(k, _)| k.starts_with("dbg_")))) {
                        st.debug_name_clash += 1;
                    }
                }
                st.edge_recreated += t.edge_recreated;
                st.equal_reassigned += t.equal_reassigned;
                st.conflicting += t.conflicting;
                st.conflict_in_one_statement += t.conflict_in_one_statement;
                st.shorthand_expansions += t.shorthand_expansions;
                if t.edge_recreated >= 10 {
                    st.hub_edges_recreated += t.edge_recreated;
                }
                st.touched_old |= t.touched_old;
                st.exact_checks += 1;
                match (&predicted, &outcome) {
                    (Ok(()), Outcome::Graph(g)) if step.debug => {
                        if let Some(d) = debug_superset(g, &model.to_cgraph()) {
                            return (st, Some(Found {
                                class: "result-differs-from-model",
                                step: si,
                                detail: format!("step {} ({}, with debug attributes) succeeded but the graph is not the predicted one plus location/match-node attributes: {}", step_no, if step.lazy { "lazy" } else { "strict" }, d),
                            }));
                        }
                    }
                    (Ok(()), Outcome::Error(_)) if step.debug && !step.lazy && debug_edge_conflict_possible(ops, &before) => {
                        st.debug_edge_conflict_excused += 1;
                    }
                    (Ok(()), Outcome::Graph(g)) => {
                        let want = model.to_cgraph();
                        if *g != want {
                            return (st, Some(Found {
                                class: "result-differs-from-model",
                                step: si,
                                detail: format!("step {} ({}) succeeded but the graph is not the predicted one: got {} want {}", step_no, if step.lazy { "lazy" } else { "strict" }, g.to_json(), want.to_json()),
                            }));
                        }
                    }
                    (Ok(()), Outcome::Error(e)) => {
                        return (st, Some(Found {
                            class: "spurious-failure",
                            step: si,
                            detail: format!("step {} ({}) only adds new elements, re-creates existing edges and re-assigns equal values, yet failed: {}", step_no, if step.lazy { "lazy" } else { "strict" }, e.display),
                        }));
                    }
                    (Err(why), Outcome::Graph(_)) => {
                        return (st, Some(Found {
                            class: "conflict-accepted",
                            step: si,
                            detail: format!("step {} ({}) assigns a different value ({}) but execution succeeded", step_no, if step.lazy { "lazy" } else { "strict" }, why),
                        }));
                    }
                    _ => {}
                }
            }
        }
        prev_failed = matches!(outcome, Outcome::Error(_));
        before = after;
    }
    st.transcript = th;
    (st, None)
}

fn run_history(h: &History) -> Result<(Stats, Option<Found>), String> {
    let h2 = h.clone();
    entropy::with_hash_seed(h.hash_seed, move || run_history_here(&h2))
}

// ---------------------------------------------------------------------------------------------
// generation of histories (needs the model image after each step, so steps are generated while
// simulating the model optimistically)

/// A hub with dozens of attributed edges, some of which later calls create again: the edge
/// list leaves its inline storage and any bulk handling of edges meets many equal sinks.
fn hub_history(seed: u64, r: &mut Rng) -> History {
    let n = r.range(22, 48) as u32;
    let mut pre: Vec<Pre> = (0..n).map(|_| Pre::Node).collect();
    for i in 1..n {
        pre.push(Pre::Edge(0, i));
        pre.push(Pre::EdgeAttr(0, i, "lab".into(), Lit::Int(i)));
    }
    let sources = vec![pysrc::passes(r.range(1, 2)), "x = 1\n".to_string()];
    let n_steps = r.range(1, 2);
    let mut steps = Vec::new();
    for si in 0..n_steps {
        let mut sinks: Vec<u32> = (1..n).collect();
        r.shuffle(&mut sinks);
        let k = r.range(10, (n - 1) as usize);
        let mut ops: Vec<Op> = Vec::new();
        ops.push(Op::NewNode(0));
        for s in &sinks[..k] {
            ops.push(Op::Edge(NodeX::Old(0), NodeX::Old(*s)));
        }
        ops.push(Op::Edge(NodeX::Old(0), NodeX::New(0)));
        ops.push(Op::Edge(NodeX::New(0), NodeX::Old(0)));
        if r.chance(1, 2) {
            let s = sinks[r.below(k)];
            ops.push(Op::AttrEdge(NodeX::Old(0), NodeX::Old(s), vec![("lab".into(), Lit::Int(s))]));
        }
        steps.push(Step {
            program: Program::Touch { per_pass: r.chance(1, 3), old_nodes: n, ops, stamp: si as u32 + 1 },
            tree: 0,
            lazy: r.chance(2, 3),
            cancel_at: None,
            debug: false,
        });
    }
    History { pre, sources, steps, hash_seed: rng::mix(seed, 0xc09) }
}

pub fn make_history(ctx: &ShardCtx, i: u64) -> History {
    let seed = ctx.run_seed(i);
    let mut r = Rng::sub(seed, "history");
    if r.chance(1, 12) {
        return hub_history(seed, &mut r);
    }
    let pre = gen_pre(&mut r);
    let sources = vec![
        {
            // a source with a few pass statements, so per-pass programs run several times
            let n = r.range(1, 4);
            let mut s = pysrc::passes(n);
            s.push_str(&pysrc::gen_source(&mut Rng::sub(seed, "srcA"), &pysrc::SrcCfg { max_stmts: 4, ..Default::default() }));
            s
        },
        pysrc::gen_source(&mut Rng::sub(seed, "srcB"), &pysrc::SrcCfg { max_stmts: 6, ..Default::default() }),
    ];
    let mut sources = sources;
    if sources[0].len() == sources[1].len() {
        sources[0].push_str("pass\n");
    }
    // model image after pre-population
    let mut m = Model::default();
    for p in &pre {
        match p {
            Pre::Node => m.nodes.push(MNode::default()),
            Pre::NodeAttr(i, k, v) => {
                m.nodes[*i as usize].attrs.insert(k.clone(), v.cval());
            }
            Pre::Edge(a, b) => {
                m.nodes[*a as usize].edges.entry(*b).or_default();
            }
            Pre::EdgeAttr(a, b, k, v) => {
                if let Some(e) = m.nodes[*a as usize].edges.get_mut(b) {
                    e.insert(k.clone(), v.cval());
                }
            }
        }
    }
    let n_steps = r.range(1, 3);
    let mut steps = Vec::new();
    for si in 0..n_steps {
        let stamp = si as u32 + 1;
        let tree = r.below(2);
        let lazy = r.chance(1, 2);
        let cancel_at = if r.chance(1, 5) { Some(1 + r.below(25) as u64) } else { None };
        let debug = r.chance(1, 6);
        if r.chance(3, 4) {
            let conflict = r.chance(1, 4);
            let (per_pass, mut ops) = gen_touch(&mut r, &m, stamp, conflict);
            if debug && r.chance(2, 3) {
                // the program itself uses a debug attribute name: the variable-name attribute of
                // a node it creates (equal value: accepted; another value: conflict), or a fresh
                // variable-name / match-node attribute on an edge it creates (edges get neither)
                let news: Vec<usize> = ops.iter().filter_map(|o| if let Op::NewNode(i) = o { Some(*i) } else { None }).collect();
                let edges: Vec<(NodeX, NodeX)> = ops.iter().filter_map(|o| if let Op::Edge(a, b) = o { Some((a.clone(), b.clone())) } else { None }).collect();
                if !news.is_empty() && (edges.is_empty() || r.chance(2, 3)) {
                    let i = *r.pick(&news);
                    let v = if r.chance(3, 4) { format!("nn{}", i) } else { "other".to_string() };
                    ops.push(Op::AttrNode(NodeX::New(i), vec![(DBG_VAR.into(), Lit::Str(v))]));
                } else if !edges.is_empty() {
                    let (a, b) = r.pick(&edges).clone();
                    let k = if r.chance(1, 2) { DBG_VAR } else { DBG_MATCH };
                    ops.push(Op::AttrEdge(a, b, vec![(k.into(), Lit::Str("mine".into()))]));
                }
            }
            // advance the optimistic model when the step is expected to succeed uncancelled
            if !conflict && cancel_at.is_none() && !debug {
                let matches = if per_pass { pass_count(&sources[tree]) } else { 1 };
                let mut t = Touches::default();
                let mut m2 = m.clone();
                let caps: Vec<CVal> = (0..matches).map(placeholder).collect();
                if apply_touch(&mut m2, &ops, stamp, &caps, lazy, &mut t).is_ok() {
                    m = m2;
                }
            }
            steps.push(Step { program: Program::Touch { per_pass, old_nodes: m.nodes.len() as u32, ops, stamp }, tree, lazy, cancel_at, debug });
        } else {
            let cfg = gen::GenCfg {
                graph_node_globals: (m.nodes.len()).min(3),
                allow_globals: false,
                fault_permille: if r.chance(1, 3) { 60 } else { 0 },
                max_stanzas: 3,
                ..Default::default()
            };
            let g = gen::gen_program(&mut Rng::sub(seed, &format!("prog{}", si)), &cfg);
            let globs = gen::supply_globals(&mut Rng::sub(seed, "globals"), &g.needed_globals);
            steps.push(Step { program: Program::Generated { text: g.prog.render(), globs }, tree, lazy, cancel_at, debug });
            // the model image is unknown after a generated step: later touch steps are generated
            // against the stale image and validated at run time by the scratch model only
        }
    }
    History { pre, sources, steps, hash_seed: rng::mix(seed, 0xc09) }
}

// A touch program generated against a stale image may contain operations whose status (new /
// equal / conflicting) differs at run time; that is fine: the oracle always recomputes the
// prediction from the observed "before" image.

fn nodex_json(x: &NodeX) -> J {
    match x {
        NodeX::Old(i) => json!({"old": i}),
        NodeX::New(i) => json!({"new": i}),
    }
}
fn nodex_from(j: &J) -> NodeX {
    if let Some(i) = j["old"].as_u64() {
        NodeX::Old(i as u32)
    } else {
        NodeX::New(j["new"].as_u64().unwrap_or(0) as usize)
    }
}
fn attrs_json(a: &[(String, Lit)]) -> J {
    json!(a.iter().map(|(k, v)| json!([k, v.to_json()])).collect::<Vec<_>>())
}
fn attrs_from(j: &J) -> Vec<(String, Lit)> {
    j.as_array()
        .map(|a| a.iter().map(|p| (p[0].as_str().unwrap_or("").to_string(), Lit::from_json(&p[1]))).collect())
        .unwrap_or_default()
}

fn history_json(h: &History) -> J {
    let pre: Vec<J> = h
        .pre
        .iter()
        .map(|p| match p {
            Pre::Node => json!({"op": "node"}),
            Pre::NodeAttr(i, k, v) => json!({"op": "nattr", "n": i, "k": k, "v": v.to_json()}),
            Pre::Edge(a, b) => json!({"op": "edge", "a": a, "b": b}),
            Pre::EdgeAttr(a, b, k, v) => json!({"op": "eattr", "a": a, "b": b, "k": k, "v": v.to_json()}),
        })
        .collect();
    let steps: Vec<J> = h
        .steps
        .iter()
        .map(|s| {
            let prog = match &s.program {
                Program::Touch { per_pass, old_nodes, ops, stamp } => json!({
                    "touch": {
                        "per_pass": per_pass, "old_nodes": old_nodes, "stamp": stamp,
                        "ops": ops.iter().map(|o| match o {
                            Op::NewNode(i) => json!({"op": "new", "i": i}),
                            Op::Edge(a, b) => json!({"op": "edge", "a": nodex_json(a), "b": nodex_json(b)}),
                            Op::AttrNode(a, at) => json!({"op": "nattr", "a": nodex_json(a), "attrs": attrs_json(at)}),
                            Op::AttrEdge(a, b, at) => json!({"op": "eattr", "a": nodex_json(a), "b": nodex_json(b), "attrs": attrs_json(at)}),
                            Op::ShortAttr(a, b, v) => json!({"op": "shortattr", "a": nodex_json(a), "b": b.as_ref().map(nodex_json), "v": v.to_json()}),
                            Op::LoopAttr(a, b, k, vals) => json!({"op": "loopattr", "a": nodex_json(a), "b": b.as_ref().map(nodex_json), "k": k, "values": vals.iter().map(|v| v.to_json()).collect::<Vec<_>>()}),
                        }).collect::<Vec<_>>(),
                    },
                    "tsg": s.program.text(),
                }),
                Program::Generated { text, globs } => json!({"generated": {"tsg": text, "globals": simrun::globs_json(globs)}}),
            };
            json!({"program": prog, "tree": s.tree, "lazy": s.lazy, "cancel_at": s.cancel_at, "debug_attributes": s.debug})
        })
        .collect();
    json!({"pre": pre, "sources": h.sources, "steps": steps, "hash_seed": h.hash_seed})
}

fn history_from_json(j: &J) -> History {
    let pre = j["pre"]
        .as_array()
        .map(|a| {
            a.iter()
                .map(|p| match p["op"].as_str().unwrap_or("") {
                    "node" => Pre::Node,
                    "nattr" => Pre::NodeAttr(p["n"].as_u64().unwrap_or(0) as u32, p["k"].as_str().unwrap_or("").into(), Lit::from_json(&p["v"])),
                    "edge" => Pre::Edge(p["a"].as_u64().unwrap_or(0) as u32, p["b"].as_u64().unwrap_or(0) as u32),
                    _ => Pre::EdgeAttr(p["a"].as_u64().unwrap_or(0) as u32, p["b"].as_u64().unwrap_or(0) as u32, p["k"].as_str().unwrap_or("").into(), Lit::from_json(&p["v"])),
                })
                .collect()
        })
        .unwrap_or_default();
    let steps = j["steps"]
        .as_array()
        .map(|a| {
            a.iter()
                .map(|s| {
                    let p = &s["program"];
                    let program = if p.get("touch").is_some() {
                        let t = &p["touch"];
                        Program::Touch {
                            per_pass: t["per_pass"].as_bool().unwrap_or(false),
                            old_nodes: t["old_nodes"].as_u64().unwrap_or(0) as u32,
                            stamp: t["stamp"].as_u64().unwrap_or(0) as u32,
                            ops: t["ops"]
                                .as_array()
                                .map(|o| {
                                    o.iter()
                                        .map(|x| match x["op"].as_str().unwrap_or("") {
                                            "new" => Op::NewNode(x["i"].as_u64().unwrap_or(0) as usize),
                                            "edge" => Op::Edge(nodex_from(&x["a"]), nodex_from(&x["b"])),
                                            "nattr" => Op::AttrNode(nodex_from(&x["a"]), attrs_from(&x["attrs"])),
                                            "shortattr" => Op::ShortAttr(
                                                nodex_from(&x["a"]),
                                                if x["b"].is_null() { None } else { Some(nodex_from(&x["b"])) },
                                                Lit::from_json(&x["v"]),
                                            ),
                                            "loopattr" => Op::LoopAttr(
                                                nodex_from(&x["a"]),
                                                if x["b"].is_null() { None } else { Some(nodex_from(&x["b"])) },
                                                x["k"].as_str().unwrap_or("").to_string(),
                                                x["values"].as_array().map(|a| a.iter().map(Lit::from_json).collect()).unwrap_or_default(),
                                            ),
                                            _ => Op::AttrEdge(nodex_from(&x["a"]), nodex_from(&x["b"]), attrs_from(&x["attrs"])),
                                        })
                                        .collect()
                                })
                                .unwrap_or_default(),
                        }
                    } else {
                        Program::Generated {
                            text: p["generated"]["tsg"].as_str().unwrap_or("").to_string(),
                            globs: simrun::globs_from_json(&p["generated"]["globals"]),
                        }
                    };
                    Step {
                        program,
                        tree: s["tree"].as_u64().unwrap_or(0) as usize,
                        lazy: s["lazy"].as_bool().unwrap_or(false),
                        cancel_at: s["cancel_at"].as_u64(),
                        debug: s["debug_attributes"].as_bool().unwrap_or(false),
                    }
                })
                .collect()
        })
        .unwrap_or_default();
    History {
        pre,
        sources: j["sources"].as_array().map(|a| a.iter().filter_map(|x| x.as_str().map(|s| s.to_string())).collect()).unwrap_or_default(),
        steps,
        hash_seed: j["hash_seed"].as_u64().unwrap_or(0),
    }
}

fn minimise(h: &History, f: Found) -> (History, Found) {
    let mut best = h.clone();
    let mut bestf = f;
    let same = |h: &History, class: &str| -> Option<Found> {
        match run_history(h) {
            Ok((_, Some(f))) if f.class == class => Some(f),
            _ => None,
        }
    };
    // drop steps after the failing one, then earlier steps
    best.steps.truncate(bestf.step + 1);
    let mut i = 0;
    while i + 1 < best.steps.len() {
        let mut c = best.clone();
        c.steps.remove(i);
        if let Some(f2) = same(&c, bestf.class) {
            best = c;
            bestf = f2;
        } else {
            i += 1;
        }
    }
    // drop operations of touch programs
    let mut progress = true;
    let mut budget = 150;
    while progress && budget > 0 {
        progress = false;
        'outer: for si in 0..best.steps.len() {
            if let Program::Touch { ops, .. } = &best.steps[si].program {
                for oi in 0..ops.len() {
                    if budget == 0 {
                        break 'outer;
                    }
                    budget -= 1;
                    let mut c = best.clone();
                    if let Program::Touch { ops, .. } = &mut c.steps[si].program {
                        let removed = ops.remove(oi);
                        // removing a NewNode that is still referenced would not load
                        if let Op::NewNode(i) = removed {
                            let uses = |x: &NodeX| matches!(x, NodeX::New(j) if *j == i);
                            if ops.iter().any(|o| match o {
                                Op::Edge(a, b) | Op::AttrEdge(a, b, _) => uses(a) || uses(b),
                                Op::AttrNode(a, _) => uses(a),
                                Op::LoopAttr(a, b, _, _) | Op::ShortAttr(a, b, _) => uses(a) || b.as_ref().map(|b| uses(b)).unwrap_or(false),
                                _ => false,
                            }) {
                                continue;
                            }
                        }
                    }
                    if let Some(f2) = same(&c, bestf.class) {
                        best = c;
                        bestf = f2;
                        progress = true;
                        break 'outer;
                    }
                }
            }
        }
    }
    // drop pre-population entries (never nodes: indices are positional)
    let mut i = 0;
    while i < best.pre.len() && budget > 0 {
        if matches!(best.pre[i], Pre::Node) {
            i += 1;
            continue;
        }
        budget -= 1;
        let mut c = best.clone();
        c.pre.remove(i);
        if let Some(f2) = same(&c, bestf.class) {
            best = c;
            bestf = f2;
        } else {
            i += 1;
        }
    }
    (best, bestf)
}

fn signature(h: &History, f: &Found) -> String {
    let s = &h.steps[f.step.min(h.steps.len() - 1)];
    format!("{} mode={}", f.class, if s.lazy { "lazy" } else { "strict" })
}

pub fn run_shard(ctx: &ShardCtx, rep: &mut Report) {
    let total: u64 = match ctx.tier {
        Tier::Quick => ctx.scaled(20000) as u64,
        Tier::Thorough => ctx.scaled(1_500_000) as u64,
    };
    let mut minimised: std::collections::BTreeSet<String> = Default::default();
    for i in 0..total {
        if ctx.past_end(i) {
            break;
        }
        if !ctx.mine(i) {
            continue;
        }
        rep.current_run = i;
        let h = make_history(ctx, i);
        let (st, found) = match run_history(&h) {
            Ok(x) => x,
            Err(m) => {
                rep.harness_error(format!("C09 run {}: {}", i, m));
                continue;
            }
        };
        rep.count("runs");
        rep.evaluations += st.executions;
        rep.steps += st.polls;
        rep.count("fault.hash_keys.configured");
        rep.count("fault.hash_keys.fired");
        let cancels = h.steps.iter().filter(|s| s.cancel_at.is_some()).count() as u64;
        rep.add("fault.abort_history_at_k.configured", cancels);
        rep.add("fault.abort_history_at_k.fired", st.cancelled_midway);
        rep.add("fault.exec_error.configured", st.conflicting);
        rep.add("fault.exec_error.fired", st.conflicting);
        if st.discarded {
            rep.count("discarded");
            continue;
        }
        rep.add("probe.edge_recreated_on_prepopulated_graph", st.edge_recreated);
        rep.add("probe.equal_value_reassigned", st.equal_reassigned);
        rep.add("probe.conflicting_value_assigned", st.conflicting);
        rep.add("probe.conflict_inside_one_statement", st.conflict_in_one_statement);
        rep.add("probe.shorthand_expanded", st.shorthand_expansions);
        rep.add("probe.hub_with_many_edges_recreated", st.hub_edges_recreated);
        rep.add("probe.step_cancelled_midway", st.cancelled_midway);
        rep.add("probe.step_after_failed_step", st.step_after_failure);
        rep.add("probe.new_nodes_after_existing", st.new_after_existing);
        rep.add("probe.lazy_step_on_nonempty_graph", st.lazy_nonempty);
        rep.add("exact_model_checks", st.exact_checks);
        rep.add("probe.step_with_debug_attributes", st.debug_steps);
        rep.add("probe.debug_step_checked_against_model", st.debug_exact_checks);
        rep.add("probe.debug_step_program_uses_a_debug_attribute_name", st.debug_name_clash);
        rep.add("probe.debug_step_edge_location_conflict_excused", st.debug_edge_conflict_excused);
        rep.run_hashes.push((i, st.transcript));
        if st.touched_old {
            rep.distinct("histories", rng::hash_str(&history_json(&h).to_string()));
        }
        rep.sample(3, || history_json(&h));
        if let Some(f) = found {
            rep.count("violating_cases");
            let sig = signature(&h, &f);
            if minimised.insert(sig) {
                let (h2, f2) = minimise(&h, f);
                rep.violation(Violation {
                    class: f2.class.to_string(),
                    signature: signature(&h2, &f2),
                    summary: f2.detail.clone(),
                    scenario: history_json(&h2),
                });
            }
        }
    }
}

pub fn replay(sc: &J) -> Result<Option<(String, String)>, String> {
    let h = history_from_json(sc);
    let (_, f) = run_history(&h)?;
    Ok(f.map(|f| (f.class.to_string(), f.detail)))
}
