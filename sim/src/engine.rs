//! Orchestration shared by all checks: tiers, sharding over worker processes, merging of
//! shard reports, evidence files, replay confirmation, known findings and exit codes.
//!
//! Exit codes: 0 = property held on everything explored (known findings are listed, not
//! counted); 1 = at least one violation, each printed as
//! `VIOLATION property=<id> replay=<path>` after the replay file reproduced it in a fresh
//! process; 2 = harness error (a check of mine misbehaved — never reported as a violation).

use std::collections::BTreeMap;
use std::collections::BTreeSet;
use std::io::Read;
use std::io::Write;
use std::path::Path;
use std::path::PathBuf;
use std::time::Instant;

use serde_json::json;
use serde_json::Value as J;

use crate::rng;

pub const VERIF: &str = "/verif";

#[derive(Clone, Copy, Debug, PartialEq, Eq)]
pub enum Tier {
    Quick,
    Thorough,
}

impl Tier {
    pub fn name(self) -> &'static str {
        match self {
            Tier::Quick => "quick",
            Tier::Thorough => "thorough",
        }
    }
    pub fn parse(s: &str) -> Option<Tier> {
        match s {
            "quick" => Some(Tier::Quick),
            "thorough" => Some(Tier::Thorough),
            _ => None,
        }
    }
}

#[derive(Clone, Debug)]
pub struct ShardCtx {
    pub prop: String,
    pub tier: Tier,
    pub seed: u64,
    pub shard: usize,
    pub shards: usize,
    /// scale factor in percent applied to run counts (VERIF_SCALE, for self-tests)
    pub scale: usize,
    /// prefix replay: stop after this run index
    pub upto: Option<u64>,
}

impl ShardCtx {
    /// Seed of run `i` of this property: a pure function of (VERIF_SEED, property, i).
    pub fn run_seed(&self, i: u64) -> u64 {
        rng::mix(rng::mix(self.seed, rng::hash_str(&self.prop)), i)
    }
    pub fn mine(&self, i: u64) -> bool {
        (i as usize) % self.shards == self.shard
    }
    /// True when the shard's loop has to stop (prefix replay).
    pub fn past_end(&self, i: u64) -> bool {
        self.upto.map(|u| i > u).unwrap_or(false)
    }
    pub fn scaled(&self, n: usize) -> usize {
        (n * self.scale / 100).max(1)
    }
}

#[derive(Clone, Debug)]
pub struct Violation {
    /// Short class name; a replay must reproduce the same class.
    pub class: String,
    /// Signature used to match KNOWN_FINDINGS entries.
    pub signature: String,
    pub summary: String,
    /// Complete, literal scenario (see each check's `replay`).
    pub scenario: J,
}

#[derive(Default)]
pub struct Report {
    pub evaluations: u64,
    pub steps: u64,
    pub counters: BTreeMap<String, u64>,
    pub distinct: BTreeMap<String, BTreeSet<u64>>,
    pub samples: Vec<J>,
    pub violations: Vec<Violation>,
    /// run index during which each violation was reported (parallel to `violations`)
    pub violation_runs: Vec<u64>,
    /// index of the run in progress (set by the check's loop)
    pub current_run: u64,
    pub harness_errors: Vec<String>,
    /// remarks for the reader (printed as NOTE lines, copied into the evidence; no verdict)
    pub notes: Vec<String>,
    /// (run index, transcript hash) — folded by the parent in index order
    pub run_hashes: Vec<(u64, u64)>,
}

impl Report {
    pub fn count(&mut self, key: &str) {
        *self.counters.entry(key.to_string()).or_default() += 1;
    }
    pub fn add(&mut self, key: &str, n: u64) {
        *self.counters.entry(key.to_string()).or_default() += n;
    }
    pub fn distinct(&mut self, set: &str, h: u64) {
        self.distinct.entry(set.to_string()).or_default().insert(h);
    }
    pub fn sample(&mut self, max: usize, f: impl FnOnce() -> J) {
        if self.samples.len() < max {
            self.samples.push(f());
        }
    }
    pub fn violation(&mut self, v: Violation) {
        // one report per signature per shard is enough
        if !self.violations.iter().any(|x| x.signature == v.signature) {
            self.violations.push(v);
            self.violation_runs.push(self.current_run);
        }
    }
    pub fn has_signature(&self, sig: &str) -> bool {
        self.violations.iter().any(|x| x.signature == sig)
    }
    pub fn harness_error(&mut self, m: String) {
        if self.harness_errors.len() < 20 {
            self.harness_errors.push(m);
        }
    }
}

pub fn out_dir() -> PathBuf {
    let p = Path::new(VERIF).join("out");
    std::fs::create_dir_all(&p).ok();
    p
}

fn shard_paths(prop: &str, tier: Tier, shard: usize) -> (PathBuf, PathBuf) {
    let d = out_dir().join("shards");
    std::fs::create_dir_all(&d).ok();
    (
        d.join(format!("{}-{}-{}.json", prop, tier.name(), shard)),
        d.join(format!("{}-{}-{}.bin", prop, tier.name(), shard)),
    )
}

pub fn write_shard_report(ctx: &ShardCtx, r: &Report) {
    let (jp, bp) = shard_paths(&ctx.prop, ctx.tier, ctx.shard);
    let viol: Vec<J> = r
        .violations
        .iter()
        .zip(r.violation_runs.iter())
        .map(|(v, run)| {
            json!({"class": v.class, "signature": v.signature, "summary": v.summary, "scenario": v.scenario,
                   "prefix": {"property": ctx.prop, "tier": ctx.tier.name(), "seed": ctx.seed, "shard": ctx.shard, "shards": ctx.shards, "scale": ctx.scale, "run": run}})
        })
        .collect();
    let j = json!({
        "evaluations": r.evaluations,
        "steps": r.steps,
        "counters": r.counters,
        "samples": r.samples,
        "violations": viol,
        "harness_errors": r.harness_errors,
        "notes": r.notes,
        "distinct_sets": r.distinct.keys().collect::<Vec<_>>(),
    });
    std::fs::write(&jp, serde_json::to_vec(&j).unwrap()).expect("write shard json");
    // binary side file: [set count][per set: name len, name, n, hashes...][run hash count][pairs]
    let mut b: Vec<u8> = Vec::new();
    b.extend((r.distinct.len() as u64).to_le_bytes());
    for (k, s) in &r.distinct {
        b.extend((k.len() as u64).to_le_bytes());
        b.extend(k.as_bytes());
        b.extend((s.len() as u64).to_le_bytes());
        for h in s {
            b.extend(h.to_le_bytes());
        }
    }
    b.extend((r.run_hashes.len() as u64).to_le_bytes());
    for (i, h) in &r.run_hashes {
        b.extend(i.to_le_bytes());
        b.extend(h.to_le_bytes());
    }
    std::fs::write(&bp, b).expect("write shard bin");
}

struct Merged {
    evaluations: u64,
    steps: u64,
    counters: BTreeMap<String, u64>,
    distinct: BTreeMap<String, BTreeSet<u64>>,
    samples: Vec<J>,
    violations: Vec<J>,
    harness_errors: Vec<String>,
    notes: Vec<String>,
    run_hashes: Vec<(u64, u64)>,
}

fn rd_u64(b: &[u8], p: &mut usize) -> u64 {
    let v = u64::from_le_bytes(b[*p..*p + 8].try_into().unwrap());
    *p += 8;
    v
}

fn merge(prop: &str, tier: Tier, shards: usize) -> Result<Merged, String> {
    let mut m = Merged {
        evaluations: 0,
        steps: 0,
        counters: BTreeMap::new(),
        distinct: BTreeMap::new(),
        samples: Vec::new(),
        violations: Vec::new(),
        harness_errors: Vec::new(),
        notes: Vec::new(),
        run_hashes: Vec::new(),
    };
    for s in 0..shards {
        let (jp, bp) = shard_paths(prop, tier, s);
        let txt = std::fs::read(&jp).map_err(|e| format!("shard {} report missing: {}", s, e))?;
        let j: J = serde_json::from_slice(&txt).map_err(|e| format!("shard {} json: {}", s, e))?;
        m.evaluations += j["evaluations"].as_u64().unwrap_or(0);
        m.steps += j["steps"].as_u64().unwrap_or(0);
        if let Some(c) = j["counters"].as_object() {
            for (k, v) in c {
                *m.counters.entry(k.clone()).or_default() += v.as_u64().unwrap_or(0);
            }
        }
        if let Some(a) = j["samples"].as_array() {
            for x in a {
                if m.samples.len() < 6 {
                    m.samples.push(x.clone());
                }
            }
        }
        if let Some(a) = j["violations"].as_array() {
            m.violations.extend(a.iter().cloned());
        }
        if let Some(a) = j["harness_errors"].as_array() {
            m.harness_errors
                .extend(a.iter().filter_map(|x| x.as_str().map(|s| s.to_string())));
        }
        if let Some(a) = j["notes"].as_array() {
            for n in a.iter().filter_map(|x| x.as_str()) {
                if !m.notes.iter().any(|x| x == n) {
                    m.notes.push(n.to_string());
                }
            }
        }
        let b = std::fs::read(&bp).map_err(|e| format!("shard {} bin missing: {}", s, e))?;
        let mut p = 0usize;
        let nsets = rd_u64(&b, &mut p);
        for _ in 0..nsets {
            let l = rd_u64(&b, &mut p) as usize;
            let name = String::from_utf8_lossy(&b[p..p + l]).to_string();
            p += l;
            let n = rd_u64(&b, &mut p);
            let set = m.distinct.entry(name).or_default();
            for _ in 0..n {
                set.insert(rd_u64(&b, &mut p));
            }
        }
        let n = rd_u64(&b, &mut p);
        for _ in 0..n {
            let i = rd_u64(&b, &mut p);
            let h = rd_u64(&b, &mut p);
            m.run_hashes.push((i, h));
        }
        std::fs::remove_file(&jp).ok();
        std::fs::remove_file(&bp).ok();
    }
    m.run_hashes.sort();
    Ok(m)
}

pub struct CheckMeta {
    pub prop: &'static str,
    pub level: &'static str,
    pub rule: &'static str,
    /// name of the distinct-set that is reported as distinct_nontrivial
    pub distinct_key: &'static str,
    pub assumptions: Vec<&'static str>,
    pub real: Vec<&'static str>,
    pub stubbed: Vec<&'static str>,
    /// probes (counter names) that must be non-zero after a run, else harness error
    pub required_probes: Vec<&'static str>,
    pub fault_kinds: Vec<&'static str>,
}

struct Known {
    prop: String,
    sig: String,
    text: String,
}

fn known_findings() -> Vec<Known> {
    let mut out = Vec::new();
    let p = Path::new(VERIF).join("KNOWN_FINDINGS.txt");
    if let Ok(txt) = std::fs::read_to_string(p) {
        for line in txt.lines() {
            let line = line.trim();
            if let Some(rest) = line.strip_prefix("known:") {
                let mut prop = String::new();
                let mut sig = String::new();
                for tok in rest.split_whitespace() {
                    if let Some(v) = tok.strip_prefix("property=") {
                        prop = v.to_string();
                    }
                    if let Some(v) = tok.strip_prefix("sig=") {
                        sig = v.to_string();
                    }
                }
                out.push(Known {
                    prop,
                    sig,
                    text: rest.trim().to_string(),
                });
            }
        }
    }
    out
}

pub fn env_seed() -> u64 {
    std::env::var("VERIF_SEED")
        .ok()
        .and_then(|s| s.trim().parse::<u64>().ok())
        .unwrap_or(1)
}

pub fn env_shards() -> usize {
    std::env::var("VERIF_SHARDS")
        .ok()
        .and_then(|s| s.parse().ok())
        .unwrap_or_else(|| {
            std::thread::available_parallelism()
                .map(|n| n.get())
                .unwrap_or(8)
                .min(16)
        })
}

pub fn env_scale() -> usize {
    std::env::var("VERIF_SCALE")
        .ok()
        .and_then(|s| s.parse().ok())
        .unwrap_or(100)
}

/// Parent side of a check: spawn shards, merge, confirm replays, write evidence, exit.
pub fn run_check(meta: &CheckMeta, tier: Tier) -> i32 {
    let t0 = Instant::now();
    let seed = env_seed();
    let shards = env_shards();
    let scale = env_scale();
    let exe = std::env::current_exe().expect("current exe");
    println!(
        "check {} tier={} VERIF_SEED={} shards={} scale={}%",
        meta.prop,
        tier.name(),
        seed,
        shards,
        scale
    );
    let mut children = Vec::new();
    for s in 0..shards {
        let c = std::process::Command::new(&exe)
            .arg("shard")
            .arg(meta.prop)
            .arg(tier.name())
            .arg(seed.to_string())
            .arg(s.to_string())
            .arg(shards.to_string())
            .arg(scale.to_string())
            .spawn()
            .expect("spawn shard");
        children.push(c);
    }
    let mut harness_fail = false;
    for (i, mut c) in children.into_iter().enumerate() {
        let st = c.wait().expect("wait shard");
        if !st.success() {
            println!("HARNESS-ERROR shard {} exited with {:?}", i, st);
            harness_fail = true;
        }
    }
    if harness_fail {
        return 2;
    }
    let m = match merge(meta.prop, tier, shards) {
        Ok(m) => m,
        Err(e) => {
            println!("HARNESS-ERROR {}", e);
            return 2;
        }
    };
    for e in &m.harness_errors {
        println!("HARNESS-ERROR {}", e);
    }
    for n in &m.notes {
        println!("NOTE {}", n);
    }
    // fold per-run hashes in run order: independent of the number of shards
    let mut transcript = 0u64;
    for (i, h) in &m.run_hashes {
        transcript = rng::mix(transcript, rng::mix(*i, *h));
    }

    // confirm and classify violations
    let known = known_findings();
    let replay_dir = out_dir().join("replays");
    std::fs::create_dir_all(&replay_dir).ok();
    let mut new_violations = 0;
    let mut seen_sig = BTreeSet::new();
    let mut known_hit = BTreeSet::new();
    let mut unreplayable = 0;
    let mut unconfirmed: Vec<String> = Vec::new();
    for v in &m.violations {
        let sig = v["signature"].as_str().unwrap_or("").to_string();
        if !seen_sig.insert(sig.clone()) {
            continue;
        }
        let body = json!({
            "property": meta.prop,
            "class": v["class"],
            "signature": sig,
            "summary": v["summary"],
            "verif_seed": seed,
            "scenario": v["scenario"],
            // fallback for failures that depend on the earlier history of the worker process:
            // re-run that worker's seeded sequence of runs up to and including the failing one
            "prefix": v["prefix"],
        });
        let text = serde_json::to_string_pretty(&body).unwrap();
        let h = rng::hash_str(&text);
        let path = replay_dir.join(format!("{}-{:016x}.json", meta.prop, h));
        std::fs::write(&path, &text).expect("write replay");
        // replay in a fresh process; it must reproduce the same class
        let out = std::process::Command::new(&exe)
            .arg("replay")
            .arg(&path)
            .output()
            .expect("spawn replay");
        let so = String::from_utf8_lossy(&out.stdout).to_string();
        let reproduced = out.status.code() == Some(1)
            && so.contains(&format!("class={}", v["class"].as_str().unwrap_or("?")));
        if !reproduced {
            // Not reported as a violation.  Alone it is a harness error (my scenario does not
            // capture what the failure depends on); next to a confirmed violation it is most
            // likely another symptom of the same defect whose trigger (e.g. the earlier
            // history of the process) lies outside this scenario.
            unconfirmed.push(format!(
                "observed but not reproduced from its replay file: {} ({})",
                path.display(),
                v["summary"].as_str().unwrap_or("")
            ));
            unreplayable += 1;
            continue;
        }
        if let Some(k) = known
            .iter()
            .find(|k| k.prop == meta.prop && !k.sig.is_empty() && sig.starts_with(&k.sig))
        {
            if known_hit.insert(k.sig.clone()) {
                println!("KNOWN-FINDING: {}", k.text);
            }
        } else {
            println!("VIOLATION property={} replay={}", meta.prop, path.display());
            println!("  {}", v["summary"].as_str().unwrap_or(""));
            new_violations += 1;
        }
    }

    // required probes
    let mut probe_fail = false;
    for p in &meta.required_probes {
        // a run that stops at violations legitimately reaches less; probes gate clean runs only
        if m.violations.is_empty() && scale >= 100 && m.counters.get(*p).copied().unwrap_or(0) == 0 {
            println!("HARNESS-ERROR probe '{}' never fired: workload does not reach it", p);
            probe_fail = true;
        }
    }

    let wall = t0.elapsed().as_secs_f64();
    let distinct_nontrivial = m
        .distinct
        .get(meta.distinct_key)
        .map(|s| s.len())
        .unwrap_or(0);
    let mut distinct_counts = serde_json::Map::new();
    for (k, s) in &m.distinct {
        distinct_counts.insert(k.clone(), json!(s.len()));
    }
    let mut faults = serde_json::Map::new();
    for f in &meta.fault_kinds {
        faults.insert(
            f.to_string(),
            json!({
                "configured": m.counters.get(&format!("fault.{}.configured", f)).copied().unwrap_or(0),
                "fired": m.counters.get(&format!("fault.{}.fired", f)).copied().unwrap_or(0),
            }),
        );
    }
    let runs = m.counters.get("runs").copied().unwrap_or(m.evaluations);
    let evidence = json!({
        "property_id": meta.prop,
        "tier": tier.name(),
        "seed": seed,
        "level": meta.level,
        "coverage": {
            "evaluations": m.evaluations,
            "distinct_nontrivial": distinct_nontrivial,
            "rule": meta.rule,
            "samples": m.samples,
            "exhaustive": false,
            "simulated_runs": runs,
            "runs_per_hour": if wall > 0.0 { (runs as f64 / wall * 3600.0) as u64 } else { 0 },
            "seeds_per_hour": if wall > 0.0 { (runs as f64 / wall * 3600.0) as u64 } else { 0 },
            "seed_derivation": "every simulated run i has its own seed mix(VERIF_SEED, property, i); all choices of the run (program, source, globals, hash keys, layout, heap, schedule, fault plan) are drawn from sub-streams of that seed",
            "executions_per_hour": if wall > 0.0 { (m.evaluations as f64 / wall * 3600.0) as u64 } else { 0 },
            "simulated_steps": m.steps,
            "simulated_time": "none: the system has no clock or timer; progress is measured in simulated steps (polls, ticks, scheduler grants, intercepted system calls)",
            "fault_kinds": faults,
            "distinct": distinct_counts,
            "counters": m.counters,
            "transcript_hash": format!("{:016x}", transcript),
            "components_real": meta.real,
            "components_stubbed": meta.stubbed,
            "notes": m.notes,
            "shards": shards,
        },
        "assumptions": meta.assumptions,
        "wall_s": wall,
        "violations": new_violations,
        "known_findings_hit": known_hit.len(),
    });
    if std::env::var("VERIF_NO_EVIDENCE").is_err() {
        let ev_dir = Path::new(VERIF).join("evidence");
        std::fs::create_dir_all(&ev_dir).ok();
        let evp = ev_dir.join(format!("{}.json", meta.prop));
        let mut f = std::fs::File::create(&evp).expect("create evidence");
        f.write_all(serde_json::to_string_pretty(&evidence).unwrap().as_bytes())
            .expect("write evidence");
    }
    println!(
        "{} {}: runs={} executions={} distinct={} steps={} transcript={:016x} wall={:.1}s violations={} known={}",
        meta.prop,
        tier.name(),
        runs,
        m.evaluations,
        distinct_nontrivial,
        m.steps,
        transcript,
        wall,
        new_violations,
        known_hit.len()
    );
    for u in &unconfirmed {
        println!("{} {}", if new_violations > 0 { "UNCONFIRMED-SYMPTOM" } else { "HARNESS-ERROR" }, u);
    }
    if new_violations > 0 {
        return 1;
    }
    if !m.harness_errors.is_empty() || unreplayable > 0 || probe_fail {
        return 2;
    }
    0
}

pub fn read_json(path: &str) -> Result<J, String> {
    let mut s = String::new();
    std::fs::File::open(path)
        .map_err(|e| format!("{}: {}", path, e))?
        .read_to_string(&mut s)
        .map_err(|e| e.to_string())?;
    serde_json::from_str(&s).map_err(|e| format!("{}: {}", path, e))
}


/// Redirects this process's stderr to /dev/null (`print` statements of generated programs
/// write there when the library runs in-process).
pub fn discard_stderr() {
    unsafe {
        let devnull = libc::open(b"/dev/null\0".as_ptr() as *const libc::c_char, libc::O_WRONLY);
        if devnull >= 0 {
            libc::dup2(devnull, 2);
            libc::close(devnull);
        }
    }
}
