//! C11 — cancellation at any poll stops execution and surfaces as `Cancelled`.
//!
//! Fault enumeration over the cancellation seam: for every generated (program, source, mode)
//! the uncancelled run is recorded with a counting flag (P polls), then the flag is made to
//! fail from poll k onward for every k in 1..=P.

use serde_json::json;
use serde_json::Value as J;

use crate::canon::Outcome;
use crate::engine::CheckMeta;
use crate::engine::Report;
use crate::engine::ShardCtx;
use crate::engine::Tier;
use crate::engine::Violation;
use crate::entropy;
use crate::gen;
use crate::pysrc;
use crate::rng;
use crate::rng::Rng;
use crate::simrun;
use crate::simrun::Event;
use crate::simrun::Globs;
use crate::simrun::SimFlag;

thread_local! {
    static ZSTATE: std::cell::RefCell<SimFlag> = std::cell::RefCell::new(SimFlag::counting());
}

/// The same flag as `SimFlag`, but as a zero-sized type whose state lives elsewhere — the
/// usual shape of a Ctrl-C flag (a unit struct reading a static).  Nothing may depend on the
/// concrete type or size of the caller's flag.
struct ZstFlag;

impl ZstFlag {
    fn arm(f: SimFlag) {
        ZSTATE.with(|z| *z.borrow_mut() = f);
    }
    fn polls() -> (u64, u64) {
        ZSTATE.with(|z| {
            let z = z.borrow();
            (z.polls.get(), z.polls_after_fail.get())
        })
    }
}

impl tree_sitter_graph::CancellationFlag for ZstFlag {
    fn check(&self, at: &'static str) -> Result<(), tree_sitter_graph::CancellationError> {
        ZSTATE.with(|z| z.borrow().check(at))
    }
}

/// Runs one execution with either representation of the flag; returns (outcome, polls, polls
/// after the first failure).
fn exec_with_flag(
    zst: bool,
    f: SimFlag,
    file: &tree_sitter_graph::ast::File,
    tree: &tree_sitter::Tree,
    source: &str,
    lazy: bool,
    fns: &tree_sitter_graph::functions::Functions,
    vars: &tree_sitter_graph::Variables,
) -> (Outcome, u64, u64) {
    if zst {
        ZstFlag::arm(f);
        let o = simrun::execute(file, tree, source, lazy, fns, vars, &ZstFlag);
        let (p, a) = ZstFlag::polls();
        (o, p, a)
    } else {
        let o = simrun::execute(file, tree, source, lazy, fns, vars, &f);
        (o, f.polls.get(), f.polls_after_fail.get())
    }
}

pub fn meta() -> CheckMeta {
    CheckMeta {
        prop: "C11",
        level: "fault_enumeration",
        rule: "Cases are (generated or template DSL program, generated/corpus Python source, mode, hash seed). \
For each case the uncancelled run is recorded with a counting flag (P polls) and then re-run with the flag failing \
from poll k onward for every k in 1..=P (sampled only when P exceeds the per-case cap; counted separately). \
A case is non-trivial when P >= 2 and the uncancelled run reaches the evaluation of at least one statement; \
distinct = distinct hash of (program text, source text, mode).",
        distinct_key: "cases",
        assumptions: vec![
            "cancellation is observed only through CancellationFlag::check; work between two polls that has no tick and no poll is invisible",
            "poll density is judged in the loosest reading of 'at least once per ...' (total polls >= the count the property enumerates for programs whose counts are known by construction)",
            "control-run panics are C05's business: such cases are discarded and tallied, not judged",
        ],
        real: vec![
            "tree-sitter-graph parser, checker, strict and lazy interpreters, graph, stdlib functions",
            "tree-sitter C runtime and tree-sitter-python grammar",
            "regex",
        ],
        stubbed: vec![
            "CancellationFlag (SimFlag: counts, logs, fails from poll k)",
            "functions tick/yield (observation only)",
            "getrandom (hash keys derived from the run seed)",
        ],
        // label-based reach counters (cancel_in_scan, ...) are informational only: poll labels
        // are internal strings and may be renamed without breaking the property
        required_probes: vec![
            "probe.cancel_inside_nested_block",
            "probe.template_cases",
            "probe.cancelled_after_graph_mutation",
            "probe.zero_sized_flag_cases",
        ],
        fault_kinds: vec!["cancel_at_k", "hash_keys"],
    }
}

#[derive(Clone, Debug)]
pub struct Case {
    pub text: String,
    pub source: String,
    pub globs: Globs,
    pub lazy: bool,
    pub hash_seed: u64,
    /// lower bound on total polls known by construction (templates only)
    pub min_polls: Option<u64>,
    /// tick labels carry statement ids (`t<n>_s<id>`): adjacent ticks must share the id
    pub tick_rule: bool,
    /// per-case cap on exhaustively enumerated k
    pub k_cap: u64,
    pub origin: String,
    /// the caller's flag is a zero-sized type (state kept elsewhere)
    pub zst_flag: bool,
    /// the caller's flag signals with an error value of its own (not the poll's label): that
    /// very error must come back
    pub own_payload: bool,
}

/// The error value a flag with `own_payload` signals with.
const OWN_PAYLOAD: &str = "interrupted by the caller";

impl Case {
    pub fn to_json(&self) -> J {
        json!({
            "tsg": self.text,
            "source": self.source,
            "globals": simrun::globs_json(&self.globs),
            "lazy": self.lazy,
            "hash_seed": self.hash_seed,
            "min_polls": self.min_polls,
            "tick_rule": self.tick_rule,
            "k_cap": self.k_cap,
            "origin": self.origin,
            "zst_flag": self.zst_flag,
            "own_payload": self.own_payload,
        })
    }
    pub fn from_json(j: &J) -> Case {
        Case {
            text: j["tsg"].as_str().unwrap_or("").to_string(),
            source: j["source"].as_str().unwrap_or("").to_string(),
            globs: simrun::globs_from_json(&j["globals"]),
            lazy: j["lazy"].as_bool().unwrap_or(false),
            hash_seed: j["hash_seed"].as_u64().unwrap_or(0),
            min_polls: j["min_polls"].as_u64(),
            tick_rule: j["tick_rule"].as_bool().unwrap_or(false),
            k_cap: j["k_cap"].as_u64().unwrap_or(100_000),
            origin: j["origin"].as_str().unwrap_or("").to_string(),
            zst_flag: j["zst_flag"].as_bool().unwrap_or(false),
            own_payload: j["own_payload"].as_bool().unwrap_or(false),
        }
    }
}

#[derive(Default, Debug)]
pub struct CaseStats {
    pub loaded: bool,
    pub discarded_panic: bool,
    pub polls: u64,
    pub executions: u64,
    pub exhaustive: bool,
    pub outcome_class: &'static str,
    pub fired_in_lazy_eval: u64,
    pub fired_in_scan: u64,
    pub fired_in_attr: u64,
    pub fired_nested: u64,
    pub fired_in_match: u64,
    pub fired_after_mutation: u64,
    pub ticks: u64,
    pub transcript: u64,
}

pub struct Found {
    pub class: &'static str,
    pub k: u64,
    pub detail: String,
}

fn stmt_id_of(label: &str) -> Option<&str> {
    label.split("_s").nth(1)
}

/// Runs the whole oracle for one case on the current thread.
pub fn check_case(case: &Case, only_k: Option<u64>) -> (CaseStats, Option<Found>) {
    let mut st = CaseStats::default();
    let file = match simrun::load(&case.text) {
        Ok(f) => f,
        Err(_) => return (st, None),
    };
    st.loaded = true;
    let tree = simrun::parse_python(&case.source);
    let fns = simrun::functions();
    let vars = simrun::make_variables(&case.globs, &[]);

    // control run without any flag
    simrun::log_clear();
    let ref_out = simrun::execute(
        &file,
        &tree,
        &case.source,
        case.lazy,
        &fns,
        &vars,
        &tree_sitter_graph::NoCancellation,
    );
    let ref_log: Vec<Event> = simrun::log_take();
    st.executions += 1;
    if let Outcome::Panic(_) = ref_out {
        st.discarded_panic = true;
        return (st, None);
    }
    st.outcome_class = ref_out.class();

    // counting run
    simrun::log_clear();
    let (cnt_out, p, _) = exec_with_flag(case.zst_flag, SimFlag::counting(), &file, &tree, &case.source, case.lazy, &fns, &vars);
    let cnt_log = simrun::log_take();
    st.executions += 1;
    st.polls = p;
    st.ticks = cnt_log.iter().filter(|e| matches!(e, Event::Tick(..))).count() as u64;
    let mut th = rng::hash_str(&format!("{:?}", cnt_out));
    for e in &cnt_log {
        th = rng::hash_bytes(th, e.render().as_bytes());
    }
    st.transcript = th;

    // oracle 4: a flag that never signals does not change the result (nor the tick sequence)
    if cnt_out != ref_out {
        return (
            st,
            Some(Found {
                class: "flag-changes-result",
                k: 0,
                detail: format!(
                    "NoCancellation gives {} but a never-signalling flag gives {}",
                    ref_out.brief(),
                    cnt_out.brief()
                ),
            }),
        );
    }
    let ticks_only = |l: &[Event]| -> Vec<Event> {
        l.iter()
            .filter(|e| matches!(e, Event::Tick(..)))
            .cloned()
            .collect()
    };
    if ticks_only(&ref_log) != ticks_only(&cnt_log) {
        return (
            st,
            Some(Found {
                class: "flag-changes-result",
                k: 0,
                detail: "tick sequence differs between NoCancellation and a never-signalling flag"
                    .to_string(),
            }),
        );
    }

    // oracle 5a: density known by construction
    if let Some(min) = case.min_polls {
        if p < min {
            return (
                st,
                Some(Found {
                    class: "poll-density",
                    k: 0,
                    detail: format!(
                        "uncancelled run polled {} times; the statements/attributes/scan iterations/matches \
this program executes by construction require at least {}",
                        p, min
                    ),
                }),
            );
        }
    }
    // oracle 5b: two ticks of different statements with no poll in between.  Sound in strict
    // mode only: in lazy mode a tick nested in another statement's thunk is legitimately
    // evaluated while that thunk is being forced, after the polls of the enclosing values.
    if case.tick_rule && !case.lazy {
        let mut last_tick: Option<&str> = None;
        for e in &cnt_log {
            match e {
                Event::Poll(..) => last_tick = None,
                Event::Tick(l, _) => {
                    if let Some(prev) = last_tick {
                        if stmt_id_of(prev) != stmt_id_of(l) {
                            return (
                                st,
                                Some(Found {
                                    class: "poll-density",
                                    k: 0,
                                    detail: format!(
                                        "ticks {} and {} belong to different statements but no poll separates them",
                                        prev, l
                                    ),
                                }),
                            );
                        }
                    }
                    last_tick = Some(l);
                }
            }
        }
    }

    // positions of polls in the counting log
    let poll_pos: Vec<usize> = cnt_log
        .iter()
        .enumerate()
        .filter(|(_, e)| matches!(e, Event::Poll(..)))
        .map(|(i, _)| i)
        .collect();
    debug_assert_eq!(poll_pos.len() as u64, p);

    // which k to run
    let ks: Vec<u64> = match only_k {
        Some(k) => vec![k],
        None => {
            if p <= case.k_cap {
                st.exhaustive = true;
                (1..=p).collect()
            } else {
                let mut r = Rng::sub(case.hash_seed, "k-sample");
                let mut v: Vec<u64> = (1..=200.min(p)).collect();
                v.extend((p.saturating_sub(200) + 1)..=p);
                for _ in 0..(case.k_cap.saturating_sub(400)) {
                    v.push(1 + r.below(p as usize) as u64);
                }
                v.sort();
                v.dedup();
                v
            }
        }
    };

    for k in ks {
        if k == 0 || k > p {
            continue;
        }
        simrun::log_clear();
        let (out, polls_seen, polls_after) = exec_with_flag(case.zst_flag, SimFlag::failing_from(k).with_payload(if case.own_payload { Some(OWN_PAYLOAD) } else { None }), &file, &tree, &case.source, case.lazy, &fns, &vars);
        let log = simrun::log_take();
        st.executions += 1;
        let at = match &cnt_log[poll_pos[(k - 1) as usize]] {
            Event::Poll(_, at) => *at,
            _ => unreachable!(),
        };
        // reach probes (structural: a tick before the failing poll saw a non-empty graph)
        if cnt_log[..poll_pos[(k - 1) as usize]].iter().any(|e| matches!(e, Event::Tick(_, n) if *n > 0)) {
            st.fired_after_mutation += 1;
        }
        match at {
            "evaluating statement" | "evaluating value" => st.fired_in_lazy_eval += 1,
            "processing scan matches" => st.fired_in_scan += 1,
            "executing attribute" => st.fired_in_attr += 1,
            "processing matches" => st.fired_in_match += 1,
            _ => {}
        }
        // oracle 1
        match &out {
            Outcome::Error(e) if e.top_is_cancelled => {
                if case.own_payload && e.cancelled_at.as_deref() != Some(OWN_PAYLOAD) {
                    return (
                        st,
                        Some(Found {
                            class: "cancellation-error-replaced",
                            k,
                            detail: format!(
                                "the flag signalled at poll {} ({:?}) with its own error value {:?}, but execution returned a cancellation error carrying {:?}",
                                k, at, OWN_PAYLOAD, e.cancelled_at
                            ),
                        }),
                    );
                }
                if !case.own_payload && e.cancelled_at.as_deref() != Some(at) {
                    return (
                        st,
                        Some(Found {
                            class: "wrong-cancellation",
                            k,
                            detail: format!(
                                "flag failed at poll {} ({:?}) but the error reports {:?}",
                                k, at, e.cancelled_at
                            ),
                        }),
                    );
                }
            }
            Outcome::Error(e) if e.cancelled_at.is_some() => {
                return (
                    st,
                    Some(Found {
                        class: "cancel-wrapped",
                        k,
                        detail: format!(
                            "cancellation at poll {} ({}) surfaced wrapped in {} context(s): {}",
                            k, at, e.depth, e.display
                        ),
                    }),
                );
            }
            Outcome::Error(e) => {
                return (
                    st,
                    Some(Found {
                        class: "cancel-other-error",
                        k,
                        detail: format!(
                            "cancellation at poll {} ({}) surfaced as {}: {}",
                            k, at, e.variant, e.display
                        ),
                    }),
                );
            }
            Outcome::Graph(_) => {
                return (
                    st,
                    Some(Found {
                        class: "cancel-ignored",
                        k,
                        detail: format!(
                            "flag failed from poll {} ({}) of {} but execution returned a graph",
                            k, at, p
                        ),
                    }),
                );
            }
            Outcome::Panic(m) => {
                return (
                    st,
                    Some(Found {
                        class: "cancel-panic",
                        k,
                        detail: format!("cancellation at poll {} ({}) panicked: {}", k, at, m),
                    }),
                );
            }
        }
        // oracle 2
        if polls_seen != k || polls_after != 0 {
            return (
                st,
                Some(Found {
                    class: "polled-after-cancel",
                    k,
                    detail: format!(
                        "flag failed at poll {} ({}) yet was polled {} more time(s) before execution returned",
                        k,
                        at,
                        polls_seen.saturating_sub(k)
                    ),
                }),
            );
        }
        // oracle 3 + no evaluation after the failing poll
        let upto = poll_pos[(k - 1) as usize] + 1;
        if log.len() > upto {
            return (
                st,
                Some(Found {
                    class: "evaluated-after-cancel",
                    k,
                    detail: format!(
                        "after the failing poll {} ({}) the run still logged: {}",
                        k,
                        at,
                        log[upto..]
                            .iter()
                            .take(4)
                            .map(|e| e.render())
                            .collect::<Vec<_>>()
                            .join("; ")
                    ),
                }),
            );
        }
        if log[..] != cnt_log[..upto] {
            return (
                st,
                Some(Found {
                    class: "prefix-differs",
                    k,
                    detail: format!(
                        "events before the failing poll {} differ from the uncancelled run",
                        k
                    ),
                }),
            );
        }
    }
    // after all those interrupted runs on this thread and this loaded file, an uncancelled run
    // must still behave exactly like the first one
    if only_k.is_none() {
        simrun::log_clear();
        let (again, _, _) = exec_with_flag(case.zst_flag, SimFlag::counting(), &file, &tree, &case.source, case.lazy, &fns, &vars);
        let again_log = simrun::log_take();
        st.executions += 1;
        if again != cnt_out || again_log != cnt_log {
            return (
                st,
                Some(Found {
                    class: "state-left-by-cancelled-runs",
                    k: p,
                    detail: format!(
                        "after {} cancelled runs the uncancelled run gives {} (first time: {})",
                        p,
                        again.brief(),
                        cnt_out.brief()
                    ),
                }),
            );
        }
    }
    (st, None)
}

// ---------------------------------------------------------------------------------------------
// Templates: programs whose executed statement/attribute/scan/match counts are known by
// construction, giving a lower bound for the total number of polls.

fn template(r: &mut Rng, lazy: bool) -> (String, String, u64, &'static str) {
    let m = r.range(1, 40); // matches
    let src = pysrc::passes(m);
    match r.below(9) {
        8 => {
            // a scan inside an arm of another scan: o outer iterations, i inner ones each
            let o = r.range(1, 4);
            let i = r.range(1, 20);
            let min = (m * (1 + o + o * (1 + i))) as u64 + if lazy { m as u64 } else { 0 };
            (
                format!(
                    "(pass_statement) @_p\n{{\n  scan \"{}\" {{\n    \"[a-z]\" {{\n      scan \"{}\" {{\n        \"x\" {{\n        }}\n      }}\n    }}\n  }}\n}}\n",
                    "a".repeat(o),
                    "x".repeat(i)
                ),
                src,
                min,
                "nested-scan",
            )
        }
        7 => {
            // one attr statement whose single attribute is a shorthand expanding to A attributes
            let a = r.range(2, 8);
            let attrs: Vec<String> = (0..a).map(|i| format!("s{} = v", i)).collect();
            let min = (m * (2 + a)) as u64 + if lazy { m as u64 } else { 0 };
            (
                format!(
                    "attribute sh = v => {}\n\n(pass_statement) @_p\n{{\n  node n\n  attr (n) sh = 1\n}}\n",
                    attrs.join(", ")
                ),
                src,
                min,
                "shorthand",
            )
        }
        0 => {
            // N simple statements per match
            let n = r.range(1, 8);
            let mut body = String::new();
            for i in 0..n {
                body.push_str(&format!("  let a{} = {}\n", i, i));
            }
            let min = (n * m) as u64 + if lazy { m as u64 } else { 0 };
            (
                format!("(pass_statement) @_p\n{{\n{}}}\n", body),
                src,
                min,
                "stmts",
            )
        }
        1 => {
            // one attr statement with A attributes
            let a = r.range(1, 8);
            let attrs: Vec<String> = (0..a).map(|i| format!("k{} = {}", i, i)).collect();
            let min = (m * (2 + a)) as u64 + if lazy { m as u64 } else { 0 };
            (
                format!(
                    "(pass_statement) @_p\n{{\n  node n\n  attr (n) {}\n}}\n",
                    attrs.join(", ")
                ),
                src,
                min,
                "attrs",
            )
        }
        2 => {
            // scan over a literal with L one-character matches and an empty arm
            let l = r.range(1, 60);
            // half of the subjects end in a tail that no arm matches: the pass of the loop that
            // tries every arm on the tail and finds none is one more iteration
            let tail = if r.chance(1, 2) { r.range(1, 5) } else { 0 };
            let subject = format!("{}{}", "a".repeat(l), "b".repeat(tail));
            let min = (m * (1 + l + if tail > 0 { 1 } else { 0 })) as u64 + if lazy { m as u64 } else { 0 };
            (
                format!(
                    "(pass_statement) @_p\n{{\n  scan \"{}\" {{\n    \"a\" {{\n    }}\n  }}\n}}\n",
                    subject
                ),
                src,
                min,
                "scan",
            )
        }
        3 => {
            // for over a literal list, b statements in the body
            let n = r.range(1, 10);
            let b = r.range(1, 4);
            let elems: Vec<String> = (0..n).map(|i| format!("{}", i)).collect();
            let mut body = String::new();
            for i in 0..b {
                body.push_str(&format!("    let b{} = x\n", i));
            }
            let min = (m * (1 + n * b)) as u64 + if lazy { m as u64 } else { 0 };
            (
                format!(
                    "(pass_statement) @_p\n{{\n  for x in [{}] {{\n{}  }}\n}}\n",
                    elems.join(", "),
                    body
                ),
                src,
                min,
                "for",
            )
        }
        4 => {
            // if-arm and scan-arm bodies
            let b = r.range(1, 5);
            let mut body = String::new();
            for i in 0..b {
                body.push_str(&format!("      let c{} = $0\n", i));
            }
            let mut ibody = String::new();
            for i in 0..b {
                ibody.push_str(&format!("    node d{}\n", i));
            }
            // statements: if (1) + b, scan (1) + 3 iterations * b
            let min = (m * (2 + b + 3 * b + 3)) as u64 + if lazy { m as u64 } else { 0 };
            (
                format!(
                    "(pass_statement) @_p\n{{\n  if #true {{\n{}  }}\n  scan \"xyz\" {{\n    \"[a-z]\" {{\n{}    }}\n  }}\n}}\n",
                    ibody, body
                ),
                src,
                min,
                "nested",
            )
        }
        5 => {
            // empty block: in lazy mode only the per-match poll remains
            let min = if lazy { m as u64 } else { 0 };
            ("(pass_statement) @_p\n{\n}\n".to_string(), src, min, "empty")
        }
        _ => {
            // thunks never used by a graph statement: forced by the final evaluate-all
            let n = r.range(1, 30);
            let mut body = String::new();
            for i in 0..n {
                body.push_str(&format!("  let x{} = (tick \"t{}_s{}\")\n", i, i, i));
            }
            // lazy: per match 1 + n statements + n deferred evaluations
            let min = if lazy {
                (m * (1 + 2 * n)) as u64
            } else {
                (m * n) as u64
            };
            (
                format!("(pass_statement) @_p\n{{\n{}}}\n", body),
                src,
                min,
                "thunks",
            )
        }
    }
}

pub fn make_case(ctx: &ShardCtx, i: u64) -> Case {
    let seed = ctx.run_seed(i);
    let mut r = Rng::sub(seed, "plan");
    let lazy = r.chance(1, 2);
    let hash_seed = rng::mix(seed, 0x4a5);
    let k_cap = if ctx.tier == Tier::Quick { 1500 } else { 6000 };
    if r.chance(1, 4) {
        let (text, source, min, name) = template(&mut Rng::sub(seed, "template"), lazy);
        return Case {
            text,
            source,
            globs: Vec::new(),
            lazy,
            hash_seed,
            min_polls: Some(min),
            tick_rule: name == "thunks",
            k_cap,
            origin: format!("template:{}", name),
            zst_flag: r.chance(1, 3),
            own_payload: r.chance(1, 3),
        };
    }
    let cfg = gen::GenCfg {
        ticks: true,
        tick_stmt_ids: true,
        fault_permille: if r.chance(1, 4) { 40 } else { 0 },
        max_stanzas: 5,
        // `print` is a deferred statement of its own kind in lazy mode (its arguments are
        // evaluated in a third phase); its output goes to stderr, which shards discard
        allow_print: r.chance(1, 2),
        ..Default::default()
    };
    let g = gen::gen_program(&mut Rng::sub(seed, "prog"), &cfg);
    let source = if r.chance(1, 5) {
        r.pick(&pysrc::corpus()).to_string()
    } else {
        let scfg = pysrc::SrcCfg {
            max_stmts: if ctx.tier == Tier::Quick { 6 } else { 14 },
            ..Default::default()
        };
        pysrc::gen_source(&mut Rng::sub(seed, "src"), &scfg)
    };
    let globs = gen::supply_globals(&mut Rng::sub(seed, "globals"), &g.needed_globals);
    Case {
        text: g.prog.render(),
        source,
        globs,
        lazy,
        hash_seed,
        min_polls: None,
        tick_rule: true,
        k_cap,
        origin: "generated".to_string(),
        zst_flag: r.chance(1, 3),
        own_payload: r.chance(1, 3),
    }
}

fn run_case_on_thread(case: &Case, only_k: Option<u64>) -> Result<(CaseStats, Option<Found>), String> {
    let c = case.clone();
    entropy::with_hash_seed(case.hash_seed, move || check_case(&c, only_k))
}

fn to_violation(case: &Case, f: &Found) -> Violation {
    let mut sc = case.to_json();
    sc["k"] = json!(f.k);
    Violation {
        class: f.class.to_string(),
        signature: format!("{} mode={}", f.class, if case.lazy { "lazy" } else { "strict" }),
        summary: format!(
            "[{} {}] {}",
            case.origin,
            if case.lazy { "lazy" } else { "strict" },
            f.detail
        ),
        scenario: sc,
    }
}

/// Shrinks program text by dropping whole lines (re-validated by the loader) and source
/// lines, while the same violation class persists.
fn minimise(case: &Case, f: Found) -> (Case, Found) {
    let mut best = case.clone();
    let mut bestf = f;
    let mut budget = 150;
    let mut progress = true;
    while progress && budget > 0 {
        progress = false;
        // source lines
        let lines: Vec<&str> = best.source.lines().collect();
        if lines.len() > 1 {
            for i in 0..lines.len() {
                if budget == 0 {
                    break;
                }
                budget -= 1;
                let mut l2 = lines.clone();
                l2.remove(i);
                let mut c = best.clone();
                c.source = l2.join("\n") + "\n";
                if best.min_polls.is_some() {
                    continue; // template bounds are tied to the source; keep it
                }
                if let Ok((_, Some(f2))) = run_case_on_thread(&c, None) {
                    if f2.class == bestf.class {
                        best = c;
                        bestf = f2;
                        progress = true;
                        break;
                    }
                }
            }
        }
        if progress {
            continue;
        }
        // program lines (statement granularity; the loader rejects ill-formed leftovers)
        if best.min_polls.is_none() {
            let lines: Vec<String> = best.text.lines().map(|s| s.to_string()).collect();
            for i in 0..lines.len() {
                if budget == 0 {
                    break;
                }
                let t = lines[i].trim();
                if t.is_empty() || t == "{" || t == "}" || t.starts_with('(') || t.starts_with("global") {
                    continue;
                }
                budget -= 1;
                let mut l2 = lines.clone();
                l2.remove(i);
                let mut c = best.clone();
                c.text = l2.join("\n") + "\n";
                if simrun::load(&c.text).is_err() {
                    continue;
                }
                if let Ok((_, Some(f2))) = run_case_on_thread(&c, None) {
                    if f2.class == bestf.class {
                        best = c;
                        bestf = f2;
                        progress = true;
                        break;
                    }
                }
            }
        }
    }
    (best, bestf)
}

pub fn run_shard(ctx: &ShardCtx, rep: &mut Report) {
    crate::engine::discard_stderr();
    let total: u64 = match ctx.tier {
        Tier::Quick => ctx.scaled(3500) as u64,
        Tier::Thorough => ctx.scaled(150_000) as u64,
    };
    for i in 0..total {
        if ctx.past_end(i) {
            break;
        }
        if !ctx.mine(i) {
            continue;
        }
        rep.current_run = i;
        let case = make_case(ctx, i);
        let res = run_case_on_thread(&case, None);
        let (st, found) = match res {
            Ok(x) => x,
            Err(m) => {
                rep.harness_error(format!("C11 run {} panicked outside the library: {}", i, m));
                continue;
            }
        };
        rep.count("runs");
        rep.count("fault.hash_keys.configured");
        rep.count("fault.hash_keys.fired");
        if !st.loaded {
            rep.count("discarded.load_error");
            if case.min_polls.is_some() {
                rep.harness_error(format!("template did not load: {}", case.text));
            }
            continue;
        }
        if st.discarded_panic {
            rep.count("discarded.control_panic");
            continue;
        }
        rep.evaluations += st.executions;
        rep.steps += st.polls + st.ticks;
        rep.add("fault.cancel_at_k.configured", st.executions.saturating_sub(2));
        rep.add("fault.cancel_at_k.fired", st.executions.saturating_sub(2));
        rep.add("polls_total", st.polls);
        rep.count(if st.exhaustive { "cases.exhaustive_k" } else { "cases.sampled_k" });
        rep.count(&format!("outcome.{}", st.outcome_class));
        rep.add("probe.cancel_in_lazy_evaluate_phase", st.fired_in_lazy_eval);
        rep.add("probe.cancel_in_scan", st.fired_in_scan);
        rep.add("probe.cancel_in_attribute", st.fired_in_attr);
        rep.add("probe.cancel_in_match_loop", st.fired_in_match);
        rep.add("probe.cancelled_after_graph_mutation", st.fired_after_mutation);
        if case.text.contains("    ") && st.polls > 0 {
            rep.add("probe.cancel_inside_nested_block", 1);
        }
        if case.min_polls.is_some() {
            rep.count("probe.template_cases");
        }
        if case.zst_flag {
            rep.count("probe.zero_sized_flag_cases");
        }
        rep.run_hashes.push((i, st.transcript));
        if st.polls >= 2 {
            rep.distinct(
                "cases",
                rng::hash_str(&format!("{}\u{0}{}\u{0}{}", case.text, case.source, case.lazy)),
            );
        }
        rep.sample(3, || {
            json!({
                "origin": case.origin,
                "mode": if case.lazy { "lazy" } else { "strict" },
                "tsg": case.text,
                "source": case.source,
                "polls": st.polls,
                "cancellation_points_run": st.executions - 2,
                "outcome_uncancelled": st.outcome_class,
            })
        });
        if let Some(f) = found {
            rep.count("violating_cases");
            let v = to_violation(&case, &f);
            if !rep.has_signature(&v.signature) {
                let (c2, f2) = minimise(&case, f);
                rep.violation(to_violation(&c2, &f2));
            }
        }
    }
}

/// Replays a scenario; returns (class, detail) if the violation reproduces.
pub fn replay(sc: &J) -> Result<Option<(String, String)>, String> {
    crate::engine::discard_stderr();
    let case = Case::from_json(sc);
    // the whole enumeration is re-run in discovery order: a violation at poll k may depend on
    // the cancelled runs 1..k-1 that preceded it on the same thread
    let (st, f) = run_case_on_thread(&case, None)?;
    if !st.loaded {
        return Err("scenario program does not load".into());
    }
    Ok(f.map(|f| (f.class.to_string(), f.detail)))
}
