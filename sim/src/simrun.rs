//! Seam S1 (cancellation) and the observation functions, plus helpers to run the real library.

use std::cell::Cell;
use std::cell::RefCell;

use tree_sitter::Parser;
use tree_sitter::Tree;
use tree_sitter_graph::ast::File;
use tree_sitter_graph::functions::Function;
use tree_sitter_graph::functions::Functions;
use tree_sitter_graph::functions::Parameters;
use tree_sitter_graph::graph::Graph;
use tree_sitter_graph::graph::Value;
use tree_sitter_graph::CancellationError;
use tree_sitter_graph::CancellationFlag;
use tree_sitter_graph::ExecutionConfig;
use tree_sitter_graph::ExecutionError;
use tree_sitter_graph::Identifier;
use tree_sitter_graph::Variables;

use crate::canon::cerr;
use crate::canon::cgraph;
use crate::canon::Outcome;

#[derive(Clone, Debug, PartialEq, Eq)]
pub enum Event {
    /// n-th poll (1-based) of the cancellation flag, with the label the library passed.
    Poll(u64, &'static str),
    /// `(tick label ...)` evaluated; second field is graph.node_count() at that instant.
    Tick(String, usize),
}

impl Event {
    pub fn render(&self) -> String {
        match self {
            Event::Poll(n, at) => format!("poll#{} {}", n, at),
            Event::Tick(l, n) => format!("tick {} nodes={}", l, n),
        }
    }
}

thread_local! {
    static LAST_PRETTY: RefCell<Option<String>> = const { RefCell::new(None) };
    static LOG: RefCell<Vec<Event>> = const { RefCell::new(Vec::new()) };
    static YIELD: RefCell<Option<Box<dyn Fn(&str)>>> = const { RefCell::new(None) };
}

/// The pretty-printed text of the graph returned by the last successful `execute` on this
/// thread (taken, so that it is never attributed to a later run).
pub fn take_last_pretty() -> Option<String> {
    LAST_PRETTY.with(|l| l.borrow_mut().take())
}

pub fn log_clear() {
    LOG.with(|l| l.borrow_mut().clear());
}

pub fn log_take() -> Vec<Event> {
    LOG.with(|l| std::mem::take(&mut *l.borrow_mut()))
}

pub fn log_len() -> usize {
    LOG.with(|l| l.borrow().len())
}

fn log_push(e: Event) {
    LOG.with(|l| l.borrow_mut().push(e));
}

/// Installs the cooperative-scheduler hook for this thread (C12c workers).
pub fn set_yield_hook(h: Option<Box<dyn Fn(&str)>>) {
    YIELD.with(|y| *y.borrow_mut() = h);
}

fn yield_point(label: &str) {
    YIELD.with(|y| {
        if let Some(h) = y.borrow().as_ref() {
            h(label)
        }
    });
}

/// The simulator's cancellation flag: counts polls, logs them, fails from poll `fail_from`
/// onward, and is a scheduling point for multi-worker runs.
pub struct SimFlag {
    pub fail_from: Option<u64>,
    pub polls: Cell<u64>,
    pub polls_after_fail: Cell<u64>,
    pub log: bool,
    /// the payload of the error this flag signals with (default: the poll's own label)
    pub payload: Option<&'static str>,
}

impl SimFlag {
    pub fn with_payload(mut self, p: Option<&'static str>) -> SimFlag {
        self.payload = p;
        self
    }
    pub fn counting() -> SimFlag {
        SimFlag {
            fail_from: None,
            polls: Cell::new(0),
            polls_after_fail: Cell::new(0),
            log: true,
            payload: None,
        }
    }
    pub fn failing_from(k: u64) -> SimFlag {
        SimFlag {
            fail_from: Some(k),
            polls: Cell::new(0),
            polls_after_fail: Cell::new(0),
            log: true,
            payload: None,
        }
    }
}

impl CancellationFlag for SimFlag {
    fn check(&self, at: &'static str) -> Result<(), CancellationError> {
        let n = self.polls.get() + 1;
        self.polls.set(n);
        if self.log {
            log_push(Event::Poll(n, at));
        }
        yield_point(at);
        match self.fail_from {
            Some(k) if n >= k => {
                if n > k {
                    self.polls_after_fail.set(self.polls_after_fail.get() + 1);
                }
                Err(CancellationError(self.payload.unwrap_or(at)))
            }
            _ => Ok(()),
        }
    }
}

/// `(tick label [value])`: logs a progress event, returns `value` (or `#true`).
struct Tick;
impl Function for Tick {
    fn call(
        &self,
        graph: &mut Graph,
        _source: &str,
        parameters: &mut dyn Parameters,
    ) -> Result<Value, ExecutionError> {
        let label = parameters.param()?;
        let ret = parameters.param().unwrap_or(Value::Boolean(true));
        // further parameters are ignored on purpose
        while parameters.param().is_ok() {}
        log_push(Event::Tick(format!("{}", label), graph.node_count()));
        yield_point("tick");
        Ok(ret)
    }
}

/// `(yield)`: a pure scheduling point.
struct Yield;
impl Function for Yield {
    fn call(
        &self,
        _graph: &mut Graph,
        _source: &str,
        parameters: &mut dyn Parameters,
    ) -> Result<Value, ExecutionError> {
        parameters.finish()?;
        yield_point("yield");
        Ok(Value::Boolean(true))
    }
}

pub fn functions() -> Functions {
    let mut f = Functions::stdlib();
    f.add(Identifier::from("tick"), Tick);
    f.add(Identifier::from("yield"), Yield);
    f
}

/// `(node-type x)` replaced by a caller's own implementation, plus an extra function: the
/// table of a *different* caller.  It must never leak into tables built with `functions()`.
struct ShoutType;
impl Function for ShoutType {
    fn call(&self, graph: &mut Graph, _source: &str, parameters: &mut dyn Parameters) -> Result<Value, ExecutionError> {
        let n = graph[parameters.param()?.into_syntax_node_ref()?];
        parameters.finish()?;
        Ok(Value::String(format!("<<{}>>", n.kind().to_uppercase())))
    }
}

pub fn functions_of_another_caller() -> Functions {
    let mut f = Functions::stdlib();
    f.add(Identifier::from("node-type"), ShoutType);
    f.add(Identifier::from("shout"), ShoutType);
    f.add(Identifier::from("tick"), Tick);
    f.add(Identifier::from("yield"), Yield);
    f
}

pub fn language() -> tree_sitter::Language {
    tree_sitter_python::LANGUAGE.into()
}

pub fn parse_python(src: &str) -> Tree {
    let mut p = Parser::new();
    p.set_language(&language()).expect("set language");
    p.parse(src, None).expect("parse")
}

static HISTORY_ON: std::sync::atomic::AtomicBool = std::sync::atomic::AtomicBool::new(false);
static HISTORY: std::sync::Mutex<(u64, std::collections::VecDeque<(u64, String)>)> =
    std::sync::Mutex::new((0, std::collections::VecDeque::new()));
const HISTORY_CAP: usize = 800;

/// Starts recording every text passed to `load` in this process (C12: histories of loads).
pub fn record_load_history() {
    HISTORY_ON.store(true, std::sync::atomic::Ordering::Relaxed);
}

/// Number of loads so far in this process.
pub fn load_counter() -> u64 {
    HISTORY.lock().unwrap().0
}

/// Texts loaded with sequence numbers in (after, upto].
pub fn loads_between(after: u64, upto: u64) -> Option<Vec<String>> {
    let h = HISTORY.lock().unwrap();
    match h.1.front() {
        Some((first, _)) if *first <= after + 1 => Some(h.1.iter().filter(|(s, _)| *s > after && *s <= upto).map(|(_, t)| t.clone()).collect()),
        _ => None,
    }
}

pub fn load(tsg: &str) -> Result<File, String> {
    if HISTORY_ON.load(std::sync::atomic::Ordering::Relaxed) {
        let was_active = crate::heap::thread_active();
        crate::heap::set_thread_active(false); // the harness's own bookkeeping stays off the simulated heap
        {
            let mut h = HISTORY.lock().unwrap();
            h.0 += 1;
            let seq = h.0;
            h.1.push_back((seq, tsg.to_string()));
            if h.1.len() > HISTORY_CAP {
                h.1.pop_front();
            }
        }
        crate::heap::set_thread_active(was_active);
    }
    File::from_str(language(), tsg).map_err(|e| format!("{}", e))
}

/// Globals as the harness describes them (so they can be stored in replay files).
#[derive(Clone, Debug, PartialEq, Eq)]
pub enum GVal {
    Null,
    Bool(bool),
    Int(u32),
    Str(String),
    List(Vec<GVal>),
    /// reference to an existing graph node by index
    GNode(u32),
}

impl GVal {
    pub fn to_json(&self) -> serde_json::Value {
        use serde_json::json;
        match self {
            GVal::Null => json!(null),
            GVal::Bool(b) => json!(b),
            GVal::Int(i) => json!(i),
            GVal::Str(s) => json!(s),
            GVal::List(l) => json!(l.iter().map(|x| x.to_json()).collect::<Vec<_>>()),
            GVal::GNode(g) => json!({"gnode": g}),
        }
    }
    pub fn from_json(v: &serde_json::Value) -> GVal {
        match v {
            serde_json::Value::Null => GVal::Null,
            serde_json::Value::Bool(b) => GVal::Bool(*b),
            serde_json::Value::Number(n) => GVal::Int(n.as_u64().unwrap_or(0) as u32),
            serde_json::Value::String(s) => GVal::Str(s.clone()),
            serde_json::Value::Array(a) => GVal::List(a.iter().map(GVal::from_json).collect()),
            serde_json::Value::Object(o) => {
                GVal::GNode(o.get("gnode").and_then(|x| x.as_u64()).unwrap_or(0) as u32)
            }
        }
    }
    pub fn to_value(&self, graph_nodes: &[tree_sitter_graph::graph::GraphNodeRef]) -> Value {
        match self {
            GVal::Null => Value::Null,
            GVal::Bool(b) => Value::Boolean(*b),
            GVal::Int(i) => Value::Integer(*i),
            GVal::Str(s) => Value::String(s.clone()),
            GVal::List(l) => Value::List(l.iter().map(|x| x.to_value(graph_nodes)).collect()),
            GVal::GNode(g) => Value::GraphNode(graph_nodes[*g as usize]),
        }
    }
}

pub type Globs = Vec<(String, GVal)>;

pub fn globs_json(g: &Globs) -> serde_json::Value {
    let mut m = serde_json::Map::new();
    for (k, v) in g {
        m.insert(k.clone(), v.to_json());
    }
    serde_json::Value::Object(m)
}

pub fn globs_from_json(v: &serde_json::Value) -> Globs {
    match v.as_object() {
        Some(o) => o
            .iter()
            .map(|(k, v)| (k.clone(), GVal::from_json(v)))
            .collect(),
        None => Vec::new(),
    }
}

pub fn make_variables<'a>(
    g: &Globs,
    graph_nodes: &[tree_sitter_graph::graph::GraphNodeRef],
) -> Variables<'a> {
    let mut vars = Variables::new();
    for (k, v) in g {
        vars.add(Identifier::from(k.as_str()), v.to_value(graph_nodes))
            .expect("duplicate harness global");
    }
    vars
}

/// Canonical rendering of a caller's variable set (C12: must be unchanged by execution).
pub fn variables_snapshot(vars: &Variables) -> Vec<(String, String)> {
    let mut v: Vec<(String, String)> = vars
        .iter()
        .map(|(k, v)| (k.as_str().to_string(), format!("{:?}", v)))
        .collect();
    v.sort();
    v
}

/// One execution of `file` on `tree`, on a fresh graph, with the given flag.
pub fn execute(
    file: &File,
    tree: &Tree,
    source: &str,
    lazy: bool,
    functions: &Functions,
    vars: &Variables,
    flag: &dyn CancellationFlag,
) -> Outcome {
    let config = ExecutionConfig::new(functions, vars).lazy(lazy);
    let r = std::panic::catch_unwind(std::panic::AssertUnwindSafe(|| {
        match file.execute(tree, source, &config, flag) {
            Ok(graph) => {
                let p = format!("{}", graph.pretty_print());
                LAST_PRETTY.with(|l| *l.borrow_mut() = Some(p));
                Outcome::Graph(cgraph(&graph))
            }
            Err(e) => Outcome::Error(cerr(&e)),
        }
    }));
    match r {
        Ok(o) => o,
        Err(e) => Outcome::Panic(crate::entropy::panic_message(&e)),
    }
}

/// Load + parse + execute in one go with `NoCancellation`-equivalent behaviour.
pub fn run_text(tsg: &str, source: &str, lazy: bool, globs: &Globs) -> Result<Outcome, String> {
    let file = load(tsg)?;
    let tree = parse_python(source);
    let fns = functions();
    let vars = make_variables(globs, &[]);
    Ok(execute(
        &file,
        &tree,
        source,
        lazy,
        &fns,
        &vars,
        &tree_sitter_graph::NoCancellation,
    ))
}

/// Silences the default panic hook (panics are caught and reported as outcomes).
pub fn install_quiet_panic_hook() {
    std::panic::set_hook(Box::new(|_| {}));
}
