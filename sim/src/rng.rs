//! The only source of randomness in the harness: SplitMix64-seeded xoshiro256**.
//! Every decision of a simulated run is drawn from a `Rng` derived from VERIF_SEED.

#[derive(Clone, Debug)]
pub struct Rng {
    s: [u64; 4],
}

pub fn splitmix(x: &mut u64) -> u64 {
    *x = x.wrapping_add(0x9E37_79B9_7F4A_7C15);
    let mut z = *x;
    z = (z ^ (z >> 30)).wrapping_mul(0xBF58_476D_1CE4_E5B9);
    z = (z ^ (z >> 27)).wrapping_mul(0x94D0_49BB_1331_11EB);
    z ^ (z >> 31)
}

/// FNV-1a over a label, used to derive independent sub-streams by name.
pub fn hash_str(s: &str) -> u64 {
    let mut h: u64 = 0xcbf2_9ce4_8422_2325;
    for b in s.as_bytes() {
        h ^= *b as u64;
        h = h.wrapping_mul(0x0000_0100_0000_01B3);
    }
    h
}

pub fn hash_bytes(mut h: u64, s: &[u8]) -> u64 {
    if h == 0 {
        h = 0xcbf2_9ce4_8422_2325;
    }
    for b in s {
        h ^= *b as u64;
        h = h.wrapping_mul(0x0000_0100_0000_01B3);
    }
    h
}

pub fn mix(a: u64, b: u64) -> u64 {
    let mut x = a ^ b.rotate_left(32) ^ 0x5851_F42D_4C95_7F2D;
    let r = splitmix(&mut x);
    r ^ splitmix(&mut x)
}

impl Rng {
    pub fn new(seed: u64) -> Rng {
        let mut x = seed;
        let s = [
            splitmix(&mut x),
            splitmix(&mut x),
            splitmix(&mut x),
            splitmix(&mut x),
        ];
        Rng { s }
    }

    /// Independent sub-stream: adding draws to one stream never shifts another.
    pub fn sub(seed: u64, label: &str) -> Rng {
        Rng::new(mix(seed, hash_str(label)))
    }

    pub fn next(&mut self) -> u64 {
        let r = self.s[1].wrapping_mul(5).rotate_left(7).wrapping_mul(9);
        let t = self.s[1] << 17;
        self.s[2] ^= self.s[0];
        self.s[3] ^= self.s[1];
        self.s[1] ^= self.s[2];
        self.s[0] ^= self.s[3];
        self.s[2] ^= t;
        self.s[3] = self.s[3].rotate_left(45);
        r
    }

    /// Uniform in 0..n (n > 0).
    pub fn below(&mut self, n: usize) -> usize {
        debug_assert!(n > 0);
        (self.next() % (n as u64)) as usize
    }

    /// Uniform in lo..=hi.
    pub fn range(&mut self, lo: usize, hi: usize) -> usize {
        lo + self.below(hi - lo + 1)
    }

    /// True with probability num/den.
    pub fn chance(&mut self, num: usize, den: usize) -> bool {
        self.below(den) < num
    }

    pub fn pick<'a, T>(&mut self, xs: &'a [T]) -> &'a T {
        &xs[self.below(xs.len())]
    }

    pub fn shuffle<T>(&mut self, xs: &mut [T]) {
        for i in (1..xs.len()).rev() {
            let j = self.below(i + 1);
            xs.swap(i, j);
        }
    }

    /// Weighted choice: returns index.
    pub fn weighted(&mut self, weights: &[usize]) -> usize {
        let total: usize = weights.iter().sum();
        let mut r = self.below(total.max(1));
        for (i, w) in weights.iter().enumerate() {
            if r < *w {
                return i;
            }
            r -= *w;
        }
        weights.len() - 1
    }
}
