//! C08 — lazy evaluation does not depend on the order of stanzas.
//!
//! The schedule explored here is the order in which the lazy interpreter meets definitions
//! and uses; the only way the system lets a caller vary it is the order of stanzas in the
//! file.  All n! orders are enumerated for n <= 5, a seeded sample beyond.

use serde_json::json;
use serde_json::Value as J;

use crate::canon;
use crate::canon::Outcome;
use crate::engine::CheckMeta;
use crate::engine::Report;
use crate::engine::ShardCtx;
use crate::engine::Tier;
use crate::engine::Violation;
use crate::entropy;
use crate::gen;
use crate::gen::Expr;
use crate::gen::Prog;
use crate::gen::Stanza;
use crate::gen::Stmt;
use crate::gen::VarRef;
use crate::pysrc;
use crate::rng;
use crate::rng::Rng;
use crate::simrun;
use crate::simrun::Globs;

pub fn meta() -> CheckMeta {
    CheckMeta {
        prop: "C08",
        level: "exploration",
        rule: "A case is a lazy-valid file of 2-7 stanzas that communicate (scoped variables defined in one stanza and read in \
others, also through inherit; graph nodes created in one stanza and connected / annotated in others; attributes put on edges \
that another stanza creates; the same edge created by several stanzas; plus generated filler stanzas and run-time-failing \
variants), a generated Python source and globals. Every permutation of the stanzas (all n! for n <= 5; identity, reverse, all \
adjacent transpositions and 60 seeded permutations for n = 6, 7) is rendered, re-loaded and executed lazily. Oracle against the \
identity order: same success/failure; on success graphs equal up to renumbering of graph nodes (colour refinement + bounded \
backtracking; an exhausted budget is counted as inconclusive, never as a violation). Non-trivial = at least two stanzas \
communicate through a scoped variable and the identity order executes statements; distinct = hash of (file, source).",
        distinct_key: "cases",
        assumptions: vec![
            "graph-node references are never rendered to text (node numbers legitimately depend on the order)",
            "which error a failing run reports is not compared, only that every order fails",
            "only orders a file can express are explored: no hook shuffles deferred statements internally",
        ],
        real: vec![
            "tree-sitter-graph parser, checker (re-run for every order), lazy interpreter, graph, stdlib functions",
            "tree-sitter C runtime and tree-sitter-python grammar",
        ],
        stubbed: vec!["getrandom (hash keys derived from the run seed)"],
        required_probes: vec![
            "probe.read_precedes_definition",
            "probe.edge_attr_precedes_edge",
            "probe.same_edge_from_two_stanzas",
            "probe.all_orders_fail",
            "probe.all_orders_rejected",
            "probe.debug_attributes_configured",
            "probe.thousands_of_matches_in_progress",
            "probe.chain_of_a_thousand_lazy_values",
            "probe.bare_wildcard_stanza",
            "probe.print_only_stanza",
            "probe.exhaustive_permutations",
            "probe.sampled_permutations",
        ],
        fault_kinds: vec!["perm", "hash_keys", "exec_error"],
    }
}

fn cap(c: &str) -> Expr {
    Expr::Cap(c.into())
}
fn sc(c: &str, n: &str) -> Expr {
    Expr::Scoped(Box::new(cap(c)), n.into())
}
fn call(f: &str, a: Vec<Expr>) -> Expr {
    Expr::Call(f.into(), a)
}
fn st(q: &str, stmts: Vec<Stmt>) -> Stanza {
    Stanza { query: q.into(), stmts }
}

/// Communicating stanza groups.  Returns (stanzas, inherits).
fn groups(r: &mut Rng) -> (Vec<Stanza>, Vec<String>) {
    let mut out: Vec<Stanza> = Vec::new();
    let mut inherits: Vec<String> = Vec::new();
    // every identifier gets a graph node
    out.push(st("(identifier) @id", vec![Stmt::Node(VarRef::Scoped(cap("id"), "nd".into()))]));
    let mut n_groups = 0;
    if r.chance(2, 3) {
        n_groups += 1;
        out.push(st(
            "(call function: (identifier) @f arguments: (argument_list (identifier) @a))",
            vec![Stmt::Edge(sc("f", "nd"), sc("a", "nd"))],
        ));
        if r.chance(2, 3) {
            out.push(st(
                "(call function: (identifier) @f arguments: (argument_list (identifier) @a))",
                vec![Stmt::AttrEdge(
                    sc("f", "nd"),
                    sc("a", "nd"),
                    vec![("kind".into(), Expr::Str("arg".into())), ("callee".into(), call("source-text", vec![cap("f")]))],
                )],
            ));
        }
    }
    if r.chance(1, 2) {
        n_groups += 1;
        out.push(st(
            "(assignment left: (identifier) @l right: (identifier) @r)",
            vec![
                Stmt::Edge(sc("l", "nd"), sc("r", "nd")),
                Stmt::AttrEdge(sc("l", "nd"), sc("r", "nd"), vec![("w".into(), call("source-text", vec![cap("r")]))]),
            ],
        ));
        if r.chance(1, 2) {
            // the same edges once more from another stanza, plus an equal attribute value
            // ... or a different attribute on the same edge: both must end up on it
            let name = if r.chance(1, 2) { "w" } else { "w2" };
            out.push(st(
                "(assignment left: (identifier) @x right: (identifier) @y)",
                vec![
                    Stmt::Edge(sc("x", "nd"), sc("y", "nd")),
                    Stmt::AttrEdge(sc("x", "nd"), sc("y", "nd"), vec![(name.into(), call("source-text", vec![cap("y")]))]),
                ],
            ));
        }
    }
    if r.chance(1, 2) {
        n_groups += 1;
        out.push(st(
            "(identifier) @x",
            vec![Stmt::AttrNode(
                sc("x", "nd"),
                vec![("text".into(), call("source-text", vec![cap("x")])), ("row".into(), call("start-row", vec![cap("x")]))],
            )],
        ));
    }
    if r.chance(1, 2) || n_groups == 0 {
        inherits.push("root".into());
        out.push(st("(module) @m", vec![Stmt::Node(VarRef::Scoped(cap("m"), "root".into()))]));
        out.push(st("(identifier) @i", vec![Stmt::Edge(sc("i", "nd"), sc("i", "root"))]));
        if r.chance(1, 2) {
            out.push(st(
                "(identifier) @j",
                vec![Stmt::AttrEdge(sc("j", "nd"), sc("j", "root"), vec![("up".into(), Expr::True)])],
            ));
        }
    }
    if r.chance(1, 3) {
        // scoped variable holding a string, read before/after through another capture name,
        // and a nested scope @c.fn.nd
        out.push(st(
            "(call function: (identifier) @f) @c",
            vec![Stmt::Let(VarRef::Scoped(cap("c"), "fn".into()), cap("f"))],
        ));
        out.push(st(
            "(call function: (identifier) @_g) @d",
            vec![
                Stmt::Node(VarRef::Local("cn".into())),
                Stmt::Edge(Expr::Var("cn".into()), Expr::Scoped(Box::new(sc("d", "fn")), "nd".into())),
                Stmt::AttrNode(Expr::Var("cn".into()), vec![("callee_node".into(), Expr::Scoped(Box::new(sc("d", "fn")), "nd".into()))]),
            ],
        ));
    }
    if r.chance(1, 4) {
        // an inherited variable shadowed on a nearer node: readers must see the nearest
        // definition whichever stanza comes first
        if !inherits.contains(&"sc".to_string()) {
            inherits.push("sc".into());
        }
        out.push(st("(module) @m", vec![Stmt::Let(VarRef::Scoped(cap("m"), "sc".into()), Expr::Str("module".into()))]));
        out.push(st("(function_definition) @f", vec![Stmt::Let(VarRef::Scoped(cap("f"), "sc".into()), Expr::Str("function".into()))]));
        let reader = |q: &str, c: &str| {
            st(q, vec![
                Stmt::Node(VarRef::Local("rn".into())),
                Stmt::AttrNode(Expr::Var("rn".into()), vec![("seen".into(), sc(c, "sc")), ("at".into(), call("start-row", vec![cap(c)])), ("ty".into(), call("node-type", vec![cap(c)]))]),
            ])
        };
        out.push(reader("(function_definition) @g", "g"));
        if r.chance(1, 2) {
            out.push(reader("(return_statement) @rs", "rs"));
        }
        if r.chance(1, 2) {
            out.push(reader("(expression_statement) @es", "es"));
        }
    }
    if r.chance(1, 5) {
        // a scoped definition whose scope is a local that itself reads a scoped variable
        out.push(st(
            "(function_definition name: (identifier) @on) @of",
            vec![Stmt::Let(VarRef::Scoped(cap("on"), "owner".into()), cap("of"))],
        ));
        out.push(st(
            "(function_definition name: (identifier) @on2) @_of2",
            vec![
                Stmt::Let(VarRef::Local("fun".into()), sc("on2", "owner")),
                Stmt::Node(VarRef::Scoped(Expr::Var("fun".into()), "fnode".into())),
            ],
        ));
        out.push(st(
            "(function_definition) @og",
            vec![Stmt::AttrNode(sc("og", "fnode"), vec![("has".into(), Expr::Str("fnode".into()))])],
        ));
    }
    if r.chance(1, 6) {
        // a stanza whose query is the bare wildcard: in the merged query it follows directly
        // on the previous stanza's pattern
        out.push(st(
            "_ @w",
            vec![Stmt::Node(VarRef::Local("wn".into())), Stmt::AttrNode(Expr::Var("wn".into()), vec![("wt".into(), call("node-type", vec![cap("w")]))])],
        ));
    }
    if r.chance(1, 5) {
        // matches that only print: their values still have to be kept until the print phase
        out.push(st(
            "(module) @pm",
            vec![Stmt::Let(VarRef::Local("pt".into()), cap("pm")), Stmt::Print(vec![Expr::Str("module: ".into()), Expr::Var("pt".into())])],
        ));
        // ... also for the very last node of the source, next to a stanza that builds something
        // for the same node (so that the stanza order decides which of the two comes last)
        out.push(st(
            "(pass_statement) @pp",
            vec![Stmt::Let(VarRef::Local("pq".into()), cap("pp")), Stmt::Print(vec![Expr::Str("visiting ".into()), Expr::Var("pq".into())])],
        ));
        out.push(st(
            "(pass_statement) @pb",
            vec![Stmt::Node(VarRef::Scoped(cap("pb"), "pn".into())), Stmt::AttrNode(sc("pb", "pn"), vec![("kind".into(), Expr::Str("pass".into()))])],
        ));
        if r.chance(1, 2) {
            out.push(st(
                "(identifier) @pi",
                vec![Stmt::Let(VarRef::Local("pv".into()), call("source-text", vec![cap("pi")])), Stmt::Print(vec![Expr::Var("pv".into())])],
            ));
        }
    }
    if r.chance(1, 5) {
        // one capture name with different quantifiers in different stanzas
        out.push(st(
            "(module (_)* @it) @_m",
            vec![Stmt::For("x".into(), cap("it"), vec![Stmt::Node(VarRef::Local("qn".into())), Stmt::AttrNode(Expr::Var("qn".into()), vec![("k".into(), call("node-type", vec![Expr::Var("x".into())]))])])],
        ));
        out.push(st(
            "(identifier) @it",
            vec![Stmt::Node(VarRef::Local("qn".into())), Stmt::AttrNode(Expr::Var("qn".into()), vec![("t".into(), call("source-text", vec![cap("it")]))])],
        ));
        if r.chance(1, 2) {
            out.push(st(
                "(return_statement (_)? @it) @_r",
                vec![Stmt::If(vec![
                    gen::IfArm { conds: vec![gen::Cond::Some(cap("it"))], body: vec![Stmt::Node(VarRef::Local("qn".into())), Stmt::AttrNode(Expr::Var("qn".into()), vec![("r".into(), call("node-type", vec![cap("it")]))])] },
                    gen::IfArm { conds: vec![], body: vec![Stmt::Node(VarRef::Local("qn".into())), Stmt::AttrNode(Expr::Var("qn".into()), vec![("r".into(), Expr::Str("none".into()))])] },
                ])],
            ));
        }
    }
    if r.chance(1, 5) {
        // near misses of the locality rule: a value derived from a scoped variable in an
        // eagerly evaluated position.  The loader must reject these in every order; were it
        // to accept one, forcing the variable while matches are still being collected would
        // make the outcome depend on the order.
        // on a node kind with a single instance, so that one order can succeed
        out.insert(
            1,
            st("(module) @d", vec![Stmt::Let(VarRef::Scoped(cap("d"), "tx".into()), call("node-type", vec![cap("d")]))]),
        );
        let body = vec![Stmt::Node(VarRef::Local("nm".into())), Stmt::AttrNode(Expr::Var("nm".into()), vec![("seen".into(), Expr::True)])];
        let eager = match r.below(7) {
            6 => {
                // a mutable variable that starts out local, is used as a condition and is
                // then assigned a value derived from the scoped variable, inside a loop
                let mut loop_body = vec![Stmt::If(vec![gen::IfArm { conds: vec![gen::Cond::Bool(Expr::Var("flag".into()))], body: body.clone() }])];
                loop_body.push(Stmt::Set(VarRef::Local("flag".into()), call("eq", vec![sc("e", "tx"), Expr::Str("module".into())])));
                out.insert(2, st("(module) @e", vec![Stmt::VarDecl(VarRef::Local("flag".into()), Expr::True), Stmt::For("x".into(), Expr::List(vec![Expr::Int(1), Expr::Int(2), Expr::Int(3)]), loop_body)]));
                return (out, inherits);
            }
            0 => Stmt::For(
                "x".into(),
                Expr::ListComp(Box::new(Expr::Scoped(Box::new(Expr::Var("y".into())), "tx".into())), "y".into(), Box::new(Expr::List(vec![cap("e")]))),
                body,
            ),
            1 => Stmt::Scan(sc("e", "tx"), vec![("[a-z]+".into(), body)]),
            2 => Stmt::If(vec![gen::IfArm { conds: vec![gen::Cond::Bool(call("eq", vec![sc("e", "tx"), Expr::Str("x".into())]))], body }]),
            3 => Stmt::For("x".into(), Expr::List(vec![sc("e", "tx")]), body),
            4 => Stmt::For(
                "x".into(),
                Expr::SetComp(Box::new(Expr::Scoped(Box::new(Expr::Var("y".into())), "tx".into())), "y".into(), Box::new(Expr::List(vec![cap("e")]))),
                body,
            ),
            _ => Stmt::Scan(call("format", vec![Expr::Str("{}".into()), sc("e", "tx")]), vec![("[a-z]+".into(), body)]),
        };
        out.insert(2, st("(module) @e", vec![eager]));
    }
    (out, inherits)
}

#[derive(Clone, Debug)]
pub struct Case {
    pub prog: Prog,
    pub source: String,
    pub globs: Globs,
    pub hash_seed: u64,
    /// run every order with ExecutionConfig::debug_attributes
    pub debug: bool,
}

/// Rare, heavy cases: (a) two stanzas whose patterns pair up siblings of a node with dozens of
/// children (thousands of matches in progress at once); (b) a chain of more than a thousand
/// lazy values, each depending on the previous sibling's, read from its far end.
fn heavy_case(seed: u64, r: &mut Rng) -> Case {
    let mut prog = Prog::default();
    let source;
    let text = |c: &str| call("source-text", vec![cap(c)]);
    if r.chance(1, 2) {
        let n = r.range(40, 46);
        source = (0..n).map(|i| format!("v{}\n", i)).collect::<String>();
        prog.stanzas.push(st(
            "(module (expression_statement (identifier) @a) (expression_statement (identifier) @b))",
            vec![Stmt::Node(VarRef::Local("pn".into())), Stmt::AttrNode(Expr::Var("pn".into()), vec![("kind".into(), Expr::Str("pair".into())), ("fst".into(), text("a")), ("snd".into(), text("b"))])],
        ));
        prog.stanzas.push(st(
            "(module (expression_statement (identifier) @x) (expression_statement (identifier) @y) (expression_statement (identifier) @z))",
            vec![Stmt::Node(VarRef::Local("tn".into())), Stmt::AttrNode(Expr::Var("tn".into()), vec![("kind".into(), Expr::Str("triple".into())), ("fst".into(), text("x")), ("snd".into(), text("y")), ("thd".into(), text("z"))])],
        ));
    } else {
        let n = r.range(1050, 1300);
        source = (0..n).map(|i| format!("v{}\n", i)).collect::<String>();
        // the index of a statement is one more than the index of the statement before it
        prog.stanzas.push(st("(module . (expression_statement) @first)", vec![Stmt::Let(VarRef::Scoped(cap("first"), "index".into()), Expr::Int(0))]));
        prog.stanzas.push(st(
            "(module (expression_statement) @prev . (expression_statement) @stmt)",
            vec![Stmt::Let(VarRef::Scoped(cap("stmt"), "index".into()), call("plus", vec![sc("prev", "index"), Expr::Int(1)]))],
        ));
        // one node per statement, in source order
        prog.stanzas.push(st(
            "(module (expression_statement)+ @stmts)",
            vec![Stmt::For(
                "stmt".into(),
                cap("stmts"),
                vec![
                    Stmt::Node(VarRef::Local("en".into())),
                    Stmt::AttrNode(Expr::Var("en".into()), vec![("kind".into(), Expr::Str("statement".into())), ("index".into(), Expr::Scoped(Box::new(Expr::Var("stmt".into())), "index".into()))]),
                ],
            )],
        ));
        // the module knows the index of its last statement and records it on its node
        prog.stanzas.push(st(
            "(module (expression_statement) @last .) @mod",
            vec![Stmt::Let(VarRef::Scoped(cap("mod"), "last".into()), sc("last", "index"))],
        ));
        prog.stanzas.push(st(
            "(module (expression_statement)+ @_stmts) @mod",
            vec![
                Stmt::Node(VarRef::Scoped(cap("mod"), "mnode".into())),
                Stmt::AttrNode(sc("mod", "mnode"), vec![("kind".into(), Expr::Str("module".into())), ("last".into(), sc("mod", "last"))]),
            ],
        ));
        r.shuffle(&mut prog.stanzas);
    }
    Case { prog, source, globs: Vec::new(), hash_seed: rng::mix(seed, 0xc08), debug: false }
}

pub fn make_case(ctx: &ShardCtx, i: u64) -> Case {
    let seed = ctx.run_seed(i);
    let mut r = Rng::sub(seed, "plan");
    if r.chance(1, 60) {
        return heavy_case(seed, &mut r);
    }
    let (mut stanzas, inherits) = groups(&mut Rng::sub(seed, "groups"));
    let mut prog = Prog::default();
    let mut globs = Vec::new();
    // filler stanzas from the general generator (lazy-only: readers may precede definers)
    let max_total = 7usize;
    if stanzas.len() < max_total && r.chance(2, 3) {
        let room = (max_total - stanzas.len()).min(3);
        let cfg = gen::GenCfg {
            strict_compatible: false,
            min_stanzas: 1,
            max_stanzas: room.max(1),
            max_stmts: 4,
            fault_permille: if r.chance(1, 5) { 50 } else { 0 },
            allow_print: false,
            gnode_attr_values: true,
            ..Default::default()
        };
        let g = gen::gen_program(&mut Rng::sub(seed, "filler"), &cfg);
        globs = gen::supply_globals(&mut Rng::sub(seed, "globals"), &g.needed_globals);
        prog.globals = g.prog.globals;
        prog.shorthands = g.prog.shorthands;
        prog.inherits = g.prog.inherits;
        stanzas.extend(g.prog.stanzas);
    }
    // deliberately failing variants: the failure must not depend on the order either
    if r.chance(1, 6) {
        match r.below(4) {
            0 => stanzas.push(st("(identifier) @z", vec![Stmt::AttrNode(sc("z", "nd"), vec![("text".into(), Expr::Str("conflict".into())), ("row".into(), Expr::Str("conflict".into()))])])),
            1 => stanzas.push(st("(identifier) @z", vec![Stmt::Node(VarRef::Local("q".into())), Stmt::AttrNode(Expr::Var("q".into()), vec![("v".into(), sc("z", "never_defined"))])])),
            2 => stanzas.push(st("(identifier) @z", vec![Stmt::Node(VarRef::Scoped(cap("z"), "nd".into()))])),
            _ => {
                // the same variable defined twice on one node, once through a capture and once
                // through a local holding the node: a duplicate in every order
                stanzas.push(st("(module) @da", vec![Stmt::Let(VarRef::Scoped(cap("da"), "dup".into()), Expr::Str("capture".into()))]));
                stanzas.push(st(
                    "(module) @db",
                    vec![Stmt::Let(VarRef::Local("loc".into()), cap("db")), Stmt::Let(VarRef::Scoped(Expr::Var("loc".into()), "dup".into()), Expr::Str("local".into()))],
                ));
            }
        }
    }
    // spread the number of stanzas: all orders are enumerated only up to five
    let target = *r.pick(&[2usize, 3, 3, 4, 4, 4, 5, 5, 5, 5, 6, 7]);
    // keep the node-defining stanza (and a near-miss pair, if any) so that the rest still
    // communicates through them; trim the others
    let protected = if stanzas.iter().any(|s| s.query == "(module) @e") { 3 } else { 1 };
    let mut tail: Vec<Stanza> = stanzas.split_off(protected.min(stanzas.len()));
    r.shuffle(&mut tail);
    stanzas.extend(tail);
    while stanzas.len() > target.max(2).max(protected) {
        stanzas.pop();
    }
    if r.chance(1, 10) {
        while stanzas.len() > 3usize.max(protected) {
            stanzas.pop();
        }
        // a definition whose scope reads the variable being defined (on another node):
        // recursive in every order
        stanzas.push(st(
            "(module . (_) @cs) @ca",
            vec![
                Stmt::Let(VarRef::Scoped(cap("ca"), "nx".into()), cap("cs")),
                Stmt::Node(VarRef::Local("cn".into())),
                Stmt::AttrNode(Expr::Var("cn".into()), vec![("last".into(), Expr::Scoped(Box::new(sc("ca", "nx")), "nx".into()))]),
            ],
        ));
        // (the same query shape, so that the matches are met in stanza order)
        stanzas.push(st("(module . (_) @_cz) @cb", vec![Stmt::Let(VarRef::Scoped(sc("cb", "nx"), "nx".into()), Expr::Str("end".into()))]));
    }
    // pairs of stanzas with the *same query shape* on the same node: their matches are met in
    // stanza order, so every permutation really is another schedule
    if r.chance(1, 4) {
        while stanzas.len() > 3usize.max(protected) {
            stanzas.pop();
        }
        match r.below(6) {
            4 => {
                // an inherited name defined twice on one node (a duplicate in every order, not
                // "the later one wins") and read from that node
                prog.inherits.push("dupi".into());
                stanzas.push(st("(module) @ia", vec![Stmt::Let(VarRef::Scoped(cap("ia"), "dupi".into()), Expr::Str("first".into()))]));
                stanzas.push(st("(module) @ib", vec![Stmt::Let(VarRef::Scoped(cap("ib"), "dupi".into()), Expr::Str("second".into()))]));
                stanzas.push(st("(module) @ic", vec![Stmt::Node(VarRef::Local("dn".into())), Stmt::AttrNode(Expr::Var("dn".into()), vec![("got".into(), sc("ic", "dupi"))])]));
            }
            5 => {
                // two edges from one node to nodes created by other stanzas (so that their
                // numbering depends on the order) and an attribute on one of the edges
                stanzas.push(st("(module) @ea", vec![Stmt::Node(VarRef::Scoped(cap("ea"), "ta".into()))]));
                stanzas.push(st("(module) @eb", vec![Stmt::Node(VarRef::Scoped(cap("eb"), "tb".into()))]));
                let which = if r.chance(1, 2) { "ta" } else { "tb" };
                stanzas.push(st(
                    "(module) @ec",
                    vec![
                        Stmt::Node(VarRef::Local("from".into())),
                        Stmt::Edge(Expr::Var("from".into()), sc("ec", "ta")),
                        Stmt::Edge(Expr::Var("from".into()), sc("ec", "tb")),
                        Stmt::AttrEdge(Expr::Var("from".into()), sc("ec", which), vec![("k".into(), Expr::Int(1))]),
                    ],
                ));
            }
            3 => {
                // the same variable defined twice on one node, once through a capture and once
                // through a local holding the node: a duplicate in every order
                stanzas.push(st("(module) @da", vec![Stmt::Let(VarRef::Scoped(cap("da"), "dup".into()), Expr::Str("capture".into()))]));
                stanzas.push(st(
                    "(module) @db",
                    vec![Stmt::Let(VarRef::Local("loc".into()), cap("db")), Stmt::Let(VarRef::Scoped(Expr::Var("loc".into()), "dup".into()), Expr::Str("local".into()))],
                ));
            }
            0 | 1 => {
                // two different values for one attribute of one node (one of them #null, or two
                // lists): a conflict, hence a failure, in every order
                let (v1, v2) = if r.chance(1, 2) {
                    (Expr::Null, Expr::Str("v".into()))
                } else {
                    (Expr::List(vec![Expr::Str("has-imports".into())]), Expr::List(vec![Expr::Str("has-definitions".into())]))
                };
                stanzas.push(st("(module) @pa", vec![Stmt::Node(VarRef::Scoped(cap("pa"), "mn".into()))]));
                stanzas.push(st("(module) @qa", vec![Stmt::AttrNode(sc("qa", "mn"), vec![("x".into(), v1)])]));
                stanzas.push(st("(module) @qb", vec![Stmt::AttrNode(sc("qb", "mn"), vec![("x".into(), v2)])]));
            }
            _ => {
                // statements whose operands are all globals: nodes of a graph that exists
                // before the call; the edge and its attribute come from different stanzas
                for g in ["gna", "gnb"] {
                    prog.globals.push(gen::GlobalDecl { name: g.into(), quant: "", default: None });
                }
                globs.push(("gna".into(), simrun::GVal::GNode(0)));
                globs.push(("gnb".into(), simrun::GVal::GNode(1)));
                stanzas.push(st("(module) @_ma", vec![Stmt::Edge(Expr::Var("gna".into()), Expr::Var("gnb".into()))]));
                stanzas.push(st("(module) @_mb", vec![Stmt::AttrEdge(Expr::Var("gna".into()), Expr::Var("gnb".into()), vec![("k".into(), Expr::Int(1))])]));
                stanzas.push(st("(module) @_mc", vec![Stmt::AttrNode(Expr::Var("gnb".into()), vec![("seen".into(), Expr::True)])]));
            }
        }
    }
    for i in inherits {
        if !prog.inherits.contains(&i) {
            prog.inherits.push(i);
        }
    }
    r.shuffle(&mut stanzas);
    prog.stanzas = stanzas;
    let mut source = String::from("foo(x, y)\nx = y\ny = x\ndef fn1(a):\n    b = a\n    return b\n");
    source.push_str(&pysrc::gen_source(
        &mut Rng::sub(seed, "src"),
        &pysrc::SrcCfg { max_stmts: if ctx.tier == Tier::Quick { 6 } else { 12 }, ..Default::default() },
    ));
    source.push_str("pass\n"); // the last node of every source is a pass statement
    Case { prog, source, globs, hash_seed: rng::mix(seed, 0xc08), debug: r.chance(1, 4) }
}

fn permutations(n: usize, r: &mut Rng) -> (Vec<Vec<usize>>, bool) {
    if n <= 5 {
        let mut out = Vec::new();
        let mut p: Vec<usize> = (0..n).collect();
        heap(n, &mut p, &mut out);
        out.sort();
        (out, true)
    } else {
        let id: Vec<usize> = (0..n).collect();
        let mut out = vec![id.clone(), id.iter().rev().cloned().collect()];
        for i in 0..n - 1 {
            let mut p = id.clone();
            p.swap(i, i + 1);
            out.push(p);
        }
        for _ in 0..60 {
            let mut p = id.clone();
            r.shuffle(&mut p);
            out.push(p);
        }
        out.sort();
        out.dedup();
        (out, false)
    }
}

fn heap(k: usize, p: &mut Vec<usize>, out: &mut Vec<Vec<usize>>) {
    if k <= 1 {
        out.push(p.clone());
        return;
    }
    for i in 0..k {
        heap(k - 1, p, out);
        if k % 2 == 0 {
            p.swap(i, k - 1);
        } else {
            p.swap(0, k - 1);
        }
    }
}

pub struct Found {
    pub class: &'static str,
    pub perm: Vec<usize>,
    pub detail: String,
}

#[derive(Default)]
pub struct Stats {
    pub executions: u64,
    pub exhaustive: bool,
    pub perms: u64,
    pub identity: &'static str,
    pub inconclusive: u64,
    pub read_before_def: bool,
    pub attr_before_edge: bool,
    pub same_edge_twice: bool,
    pub communicates: bool,
    pub transcript: u64,
    pub discarded: bool,
}

fn stanza_defines_nd(s: &Stanza) -> bool {
    s.stmts.iter().any(|x| matches!(x, Stmt::Node(VarRef::Scoped(_, n)) if n == "nd" || n == "root"))
}
fn stanza_reads_scoped(s: &Stanza) -> bool {
    let t = s.render();
    t.contains(".nd") && !stanza_defines_nd(s) || t.contains(".root") && !t.contains("node @m.root")
}
fn stanza_has_edge(s: &Stanza) -> bool {
    s.stmts.iter().any(|x| matches!(x, Stmt::Edge(..)))
}
fn stanza_only_edge_attr(s: &Stanza) -> bool {
    s.stmts.iter().any(|x| matches!(x, Stmt::AttrEdge(..))) && !stanza_has_edge(s)
}

/// Loads and executes lazily.  Err = rejected by the loader.  With `debug` the run uses
/// `ExecutionConfig::debug_attributes`; the location attribute is then dropped from the result
/// (line numbers legitimately move with the stanzas), the variable-name and match-node
/// attributes are kept.
fn run_one(text: &str, source: &str, globs: &Globs, debug: bool) -> Result<Outcome, String> {
    use tree_sitter_graph::Identifier;
    let r = std::panic::catch_unwind(|| -> Result<Outcome, String> {
        let file = simrun::load(text)?;
        let tree = simrun::parse_python(source);
        let fns = simrun::functions();
        // graph-node-valued globals refer to nodes of a graph that exists before the call
        let n_pre = globs.iter().filter_map(|(_, v)| if let simrun::GVal::GNode(i) = v { Some(*i as usize + 1) } else { None }).max().unwrap_or(0);
        let mut graph = tree_sitter_graph::graph::Graph::new();
        let pre: Vec<tree_sitter_graph::graph::GraphNodeRef> = (0..n_pre).map(|_| graph.add_graph_node()).collect();
        let vars = simrun::make_variables(globs, &pre);
        let mut config = tree_sitter_graph::ExecutionConfig::new(&fns, &vars).lazy(true);
        if debug {
            config = config.debug_attributes(Identifier::from("dbg_loc"), Identifier::from("dbg_var"), Identifier::from("dbg_match"));
        }
        Ok(match file.execute_into(&mut graph, &tree, source, &config, &tree_sitter_graph::NoCancellation) {
            Ok(()) => {
                let mut g = canon::cgraph(&graph);
                if debug {
                    for n in &mut g.nodes {
                        n.attrs.remove("dbg_loc");
                        for e in &mut n.edges {
                            e.1.remove("dbg_loc");
                        }
                    }
                }
                Outcome::Graph(g)
            }
            Err(e) => Outcome::Error(canon::cerr(&e)),
        })
    });
    match r {
        Ok(x) => x,
        Err(p) => Ok(Outcome::Panic(entropy::panic_message(&p))),
    }
}

fn check_case(case: &Case, only: Option<Vec<usize>>) -> (Stats, Option<Found>) {
    let mut st = Stats::default();
    let n = case.prog.stanzas.len();
    let id_text = case.prog.render();
    let id_out = match run_one(&id_text, &case.source, &case.globs, case.debug) {
        Ok(o) => o,
        Err(_) => {
            // the loader rejects the identity order: it must reject every other order as well
            st.identity = "rejected";
            let (perms, exhaustive) = match only {
                Some(p) => (vec![p], false),
                None => permutations(n, &mut Rng::sub(case.hash_seed, "perms")),
            };
            st.exhaustive = exhaustive;
            for p in perms {
                st.perms += 1;
                if run_one(&case.prog.permuted(&p).render(), &case.source, &case.globs, case.debug).is_ok() {
                    return (st, Some(Found { class: "rejection-depends-on-order", perm: p, detail: "the identity order is rejected by the loader but this order is accepted".into() }));
                }
            }
            st.transcript = 7;
            return (st, None);
        }
    };
    st.executions += 1;
    if let Outcome::Panic(m) = &id_out {
        // a panic in every order is C05's business; a panic in some orders only depends on
        // the order
        if only.is_none() {
            let (perms, _) = permutations(n, &mut Rng::sub(case.hash_seed, "perms"));
            for p in perms {
                if let Ok(o) = run_one(&case.prog.permuted(&p).render(), &case.source, &case.globs, case.debug) {
                    st.executions += 1;
                    if !matches!(o, Outcome::Panic(_)) {
                        return (st, Some(Found { class: "panic-under-order", perm: p, detail: format!("the identity order panicked ({}) but this order does not: {}", m, o.brief().chars().take(200).collect::<String>()) }));
                    }
                }
            }
        }
        st.discarded = true;
        return (st, None);
    }
    st.identity = id_out.class();
    st.transcript = rng::hash_str(&format!("{:?}", id_out));
    let (perms, exhaustive) = match only {
        Some(p) => (vec![p], false),
        None => permutations(n, &mut Rng::sub(case.hash_seed, "perms")),
    };
    st.exhaustive = exhaustive;
    for p in perms {
        if p.iter().enumerate().all(|(i, x)| i == *x) {
            continue;
        }
        let prog = case.prog.permuted(&p);
        // reach probes on the order actually executed
        let defs: Vec<usize> = prog.stanzas.iter().enumerate().filter(|(_, s)| stanza_defines_nd(s)).map(|(i, _)| i).collect();
        let reads: Vec<usize> = prog.stanzas.iter().enumerate().filter(|(_, s)| stanza_reads_scoped(s)).map(|(i, _)| i).collect();
        if let (Some(d), Some(rd)) = (defs.iter().max(), reads.iter().min()) {
            st.communicates = true;
            if rd < d {
                st.read_before_def = true;
            }
        }
        let edge_pos: Vec<usize> = prog.stanzas.iter().enumerate().filter(|(_, s)| stanza_has_edge(s)).map(|(i, _)| i).collect();
        let attr_pos: Vec<usize> = prog.stanzas.iter().enumerate().filter(|(_, s)| stanza_only_edge_attr(s)).map(|(i, _)| i).collect();
        if let (Some(e), Some(a)) = (edge_pos.iter().max(), attr_pos.iter().min()) {
            if a < e {
                st.attr_before_edge = true;
            }
        }
        if prog.stanzas.iter().filter(|s| s.query.starts_with("(assignment left: (identifier)") && stanza_has_edge(s)).count() >= 2 {
            st.same_edge_twice = true;
        }
        let text = prog.render();
        st.perms += 1;
        let out = match run_one(&text, &case.source, &case.globs, case.debug) {
            Ok(o) => o,
            Err(e) => {
                return (st, Some(Found { class: "order-rejected-by-loader", perm: p, detail: format!("the identity order loads but this order is rejected: {}", e) }));
            }
        };
        st.executions += 1;
        st.transcript = rng::mix(st.transcript, rng::hash_str(out.class()));
        match (&id_out, &out) {
            (_, Outcome::Panic(m)) => {
                return (st, Some(Found { class: "panic-under-order", perm: p, detail: format!("this order panicked: {}", m) }));
            }
            (Outcome::Graph(a), Outcome::Graph(b)) => match canon::iso_eq(a, b) {
                Some(true) => {}
                Some(false) => {
                    return (st, Some(Found {
                        class: "graph-depends-on-order",
                        perm: p,
                        detail: format!("graphs differ beyond renumbering: identity {} vs permuted {}", a.digest(), b.digest()),
                    }));
                }
                None => st.inconclusive += 1,
            },
            (Outcome::Error(_), Outcome::Error(_)) => {}
            (a, b) => {
                return (st, Some(Found {
                    class: "success-depends-on-order",
                    perm: p,
                    detail: format!("identity order: {}; this order: {}", a.brief().chars().take(300).collect::<String>(), b.brief().chars().take(300).collect::<String>()),
                }));
            }
        }
    }
    (st, None)
}

fn run_on_thread(case: &Case, only: Option<Vec<usize>>) -> Result<(Stats, Option<Found>), String> {
    let c = case.clone();
    entropy::with_hash_seed(case.hash_seed, move || check_case(&c, only))
}

fn case_json(c: &Case, perm: &[usize]) -> J {
    json!({
        "stanzas": c.prog.stanzas.iter().map(|s| s.render()).collect::<Vec<_>>(),
        "header": Prog { stanzas: vec![], ..c.prog.clone() }.render(),
        "tsg_identity": c.prog.render(),
        "tsg_permuted": c.prog.permuted(perm).render(),
        "perm": perm,
        "source": c.source,
        "globals": simrun::globs_json(&c.globs),
        "hash_seed": c.hash_seed,
        "debug_attributes": c.debug,
    })
}

/// Replay works on literal texts: identity text and permuted text.
pub fn replay(sc: &J) -> Result<Option<(String, String)>, String> {
    let id_text = sc["tsg_identity"].as_str().unwrap_or("").to_string();
    let pm_text = sc["tsg_permuted"].as_str().unwrap_or("").to_string();
    let source = sc["source"].as_str().unwrap_or("").to_string();
    let globs = simrun::globs_from_json(&sc["globals"]);
    let hs = sc["hash_seed"].as_u64().unwrap_or(1);
    let debug = sc["debug_attributes"].as_bool().unwrap_or(false);
    crate::engine::discard_stderr();
    entropy::with_hash_seed(hs, move || -> Result<Option<(String, String)>, String> {
        let a = match run_one(&id_text, &source, &globs, debug) {
            Ok(a) => a,
            Err(_) => {
                return Ok(if run_one(&pm_text, &source, &globs, debug).is_ok() {
                    Some(("rejection-depends-on-order".into(), "the identity order is rejected by the loader but this order is accepted".into()))
                } else {
                    None
                });
            }
        };
        let b = match run_one(&pm_text, &source, &globs, debug) {
            Ok(b) => b,
            Err(e) => return Ok(Some(("order-rejected-by-loader".into(), e))),
        };
        Ok(match (&a, &b) {
            (Outcome::Panic(_), Outcome::Panic(_)) => None,
            (_, Outcome::Panic(m)) | (Outcome::Panic(m), _) => Some(("panic-under-order".into(), m.clone())),
            (Outcome::Graph(x), Outcome::Graph(y)) => match canon::iso_eq(x, y) {
                Some(false) => Some(("graph-depends-on-order".into(), format!("{} vs {}", x.digest(), y.digest()))),
                _ => None,
            },
            (Outcome::Error(_), Outcome::Error(_)) => None,
            (x, y) => Some(("success-depends-on-order".into(), format!("{} vs {}", x.brief(), y.brief()))),
        })
    })?
}

fn minimise(case: &Case, f: Found) -> (Case, Found) {
    let mut best = case.clone();
    let mut bestf = f;
    let mut budget = 100;
    // drop stanzas (keeping the relative order of the rest in both texts)
    let mut i = 0;
    while best.prog.stanzas.len() > 2 && i < best.prog.stanzas.len() && budget > 0 {
        budget -= 1;
        let mut c = best.clone();
        c.prog.stanzas.remove(i);
        match run_on_thread(&c, None) {
            Ok((_, Some(f2))) if f2.class == bestf.class => {
                best = c;
                bestf = f2;
            }
            _ => i += 1,
        }
    }
    // drop source lines
    let mut progress = true;
    while progress && budget > 0 {
        progress = false;
        let lines: Vec<&str> = best.source.lines().collect();
        for i in 0..lines.len() {
            if budget == 0 || lines.len() <= 1 {
                break;
            }
            budget -= 1;
            let mut l2 = lines.clone();
            l2.remove(i);
            let mut c = best.clone();
            c.source = l2.join("\n") + "\n";
            if let Ok((_, Some(f2))) = run_on_thread(&c, None) {
                if f2.class == bestf.class {
                    best = c;
                    bestf = f2;
                    progress = true;
                    break;
                }
            }
        }
    }
    // prefer a single adjacent transposition when one suffices
    let n = best.prog.stanzas.len();
    for i in 0..n.saturating_sub(1) {
        let mut p: Vec<usize> = (0..n).collect();
        p.swap(i, i + 1);
        if let Ok((_, Some(f2))) = run_on_thread(&best, Some(p)) {
            if f2.class == bestf.class {
                bestf = f2;
                break;
            }
        }
    }
    (best, bestf)
}

pub fn run_shard(ctx: &ShardCtx, rep: &mut Report) {
    crate::engine::discard_stderr();
    let total: u64 = match ctx.tier {
        Tier::Quick => ctx.scaled(480) as u64,
        Tier::Thorough => ctx.scaled(24_000) as u64,
    };
    let mut minimised: std::collections::BTreeSet<String> = Default::default();
    for i in 0..total {
        if ctx.past_end(i) {
            break;
        }
        if !ctx.mine(i) {
            continue;
        }
        rep.current_run = i;
        let case = make_case(ctx, i);
        let (st, found) = match run_on_thread(&case, None) {
            Ok(x) => x,
            Err(m) => {
                rep.harness_error(format!("C08 run {}: {}", i, m));
                continue;
            }
        };
        rep.count("runs");
        rep.evaluations += st.executions;
        rep.steps += st.perms;
        rep.count("fault.hash_keys.configured");
        rep.count("fault.hash_keys.fired");
        if st.discarded {
            rep.count("discarded");
            continue;
        }
        rep.add("fault.perm.configured", st.perms);
        rep.add("fault.perm.fired", st.perms);
        rep.count(&format!("stanzas.{}", case.prog.stanzas.len()));
        rep.count(&format!("identity.{}", st.identity));
        if st.identity == "rejected" {
            rep.count("probe.all_orders_rejected");
        }
        if st.identity == "error" {
            rep.count("probe.all_orders_fail");
            rep.count("fault.exec_error.configured");
            rep.count("fault.exec_error.fired");
        }
        if st.exhaustive {
            rep.count("probe.exhaustive_permutations");
        } else {
            rep.count("probe.sampled_permutations");
        }
        if st.read_before_def {
            rep.count("probe.read_precedes_definition");
        }
        if st.attr_before_edge {
            rep.count("probe.edge_attr_precedes_edge");
        }
        if st.same_edge_twice {
            rep.count("probe.same_edge_from_two_stanzas");
        }
        if case.debug {
            rep.count("probe.debug_attributes_configured");
        }
        if case.source.starts_with("v0\nv1\n") && case.prog.stanzas.len() == 2 && st.identity == "ok" {
            rep.count("probe.thousands_of_matches_in_progress");
        }
        if case.source.starts_with("v0\nv1\n") && case.prog.stanzas.len() == 5 && st.identity == "ok" {
            rep.count("probe.chain_of_a_thousand_lazy_values");
        }
        if case.prog.stanzas.iter().any(|s| s.query == "_ @w") {
            rep.count("probe.bare_wildcard_stanza");
        }
        if case.prog.stanzas.iter().any(|s| s.query == "(module) @pm") {
            rep.count("probe.print_only_stanza");
        }
        rep.add("inconclusive_isomorphism", st.inconclusive);
        rep.run_hashes.push((i, st.transcript));
        if st.communicates {
            rep.distinct("cases", rng::hash_str(&format!("{}\u{0}{}", case.prog.render(), case.source)));
        }
        rep.sample(3, || json!({"tsg": case.prog.render(), "source": case.source, "stanzas": case.prog.stanzas.len(), "orders_executed": st.perms + 1, "identity_outcome": st.identity}));
        if let Some(f) = found {
            rep.count("violating_cases");
            if minimised.insert(f.class.to_string()) {
                let (c2, f2) = minimise(&case, f);
                rep.violation(Violation {
                    class: f2.class.to_string(),
                    signature: f2.class.to_string(),
                    summary: format!("order {:?} of {} stanzas: {}", f2.perm, c2.prog.stanzas.len(), f2.detail),
                    scenario: case_json(&c2, &f2.perm),
                });
            }
        }
    }
}
