//! C12 — deterministic results; a loaded file is reusable without cross-talk.
//!
//! Sub-checks (one evidence file):
//!  (a) same inputs under different hash keys and address-space layouts (seams S2, S3);
//!  (b) one loaded file driven through a history of executions, some cancelled or failing,
//!      over several trees, with trees re-parsed at recycled addresses;
//!  (c) several workers sharing `&File`/`&Functions` under a seeded cooperative scheduler;
//!  (d) load determinism: re-loading the text, also interleaved with executions.

use std::sync::Arc;

use serde_json::json;
use serde_json::Value as J;

use crate::alloc;
use crate::alloc::Policy;
use crate::canon;
use crate::canon::Outcome;
use crate::engine::CheckMeta;
use crate::engine::Report;
use crate::engine::ShardCtx;
use crate::engine::Tier;
use crate::engine::Violation;
use crate::entropy;
use crate::gen;
use crate::pysrc;
use crate::rng;
use crate::rng::Rng;
use crate::sched::Sched;
use crate::sched::Strategy;
use crate::simrun;
use crate::simrun::Event;
use crate::simrun::Globs;
use crate::simrun::SimFlag;

pub fn meta() -> CheckMeta {
    CheckMeta {
        prop: "C12",
        level: "exploration",
        rule: "Runs are of three kinds. (a) a generated case (valid program, program with several unused captures, \
program with several independent run-time faults) is loaded and executed under a control environment and under seeded \
(hash keys x layout policy x heap policy x log level x clock x caller stack depth) environments, each on fresh threads; ASTs/diagnostics and graphs/errors must be identical. \
(b) one loaded file is driven through a seeded history of 2-12 steps (execute on tree A/B, either mode, a step cancelled at \
poll k, re-parse at recycled addresses, re-load, other files, rejected loads; steps started at different stack depths) and every step must equal an isolated run; caller variables and the AST \
must be unchanged. (c) 2-4 workers share the file and functions; a seeded scheduler (random, round-robin, run-to-completion, \
PCT, starve) picks every interleaving at poll/tick granularity and at contended library locks (simulated futex); each task's result and its own event log must equal the \
isolated run, and isolated references recomputed afterwards must be unchanged. Non-trivial = the case executes at least one \
statement; distinct = distinct hash of (kind, program, sources, environment or schedule trace).",
        distinct_key: "cases",
        assumptions: vec![
            "syntax-node ids are heap addresses by design: syntax nodes are compared by (kind, byte range, start point); sets of syntax nodes are compared as sets; JSON/attribute maps are compared as maps",
            "generated programs do not render sets of syntax nodes or graph-node references into strings",
            "interleaving granularity is the poll / tick / task boundary plus contended lock acquisitions and the wake-ups that follow them: the library has no atomics, locks, statics or interior mutability reachable from File::execute today, so finer races are excluded by the type system; a race that needs pre-emption between two uncontended synchronisation operations is out of reach",
        ],
        real: vec![
            "tree-sitter-graph parser, checker, strict and lazy interpreters, graph, stdlib functions",
            "tree-sitter C runtime and tree-sitter-python grammar",
            "std::thread workers (real threads, released one at a time)",
        ],
        stubbed: vec![
            "getrandom (hash keys per simulated thread)",
            "clock_gettime (fast-forward monotonic clock for single-threaded runs)",
            "Rust global allocator of simulated threads (exact-size LIFO arena: freed addresses are reused at once)",
            "tree-sitter malloc/calloc/realloc/free (seeded layout policies)",
            "thread scheduler (cooperative, seeded)",
            "futex system call of scheduled workers (waits and wake-ups on contended library locks are scheduler decisions)",
            "CancellationFlag (SimFlag)",
        ],
        required_probes: vec![
            "probe.a.hash_order_classes_ge2",
            "probe.a.unused_captures_case",
            "probe.a.multi_fault_case",
            "probe.b.cancelled_step",
            "probe.b.failed_step_then_success",
            "probe.b.tree_at_recycled_address",
            "probe.b.other_file_on_same_thread",
            "probe.b.rejected_load_in_history",
            "probe.b.globals_vary_between_steps",
            "probe.c.switch_inside_execution",
            "probe.c.cancel_other",
            "probe.c.multi_worker_runs",
            "probe.c.deep_chain_runs",
            "probe.e.old_text_reloaded",
        ],
        fault_kinds: vec!["hash_keys", "layout", "heap_reuse", "trace_log", "stack_depth", "clock_fast_forward", "sched", "lock_wait", "cancel_at_k", "cancel_other", "exec_error"],
    }
}

const CONTROL_HASH: u64 = 0x0C01_7201;

/// A logger that formats every record (so that Display implementations of logged values run)
/// and throws the text away.  Installed once per process; the level is switched per run.
struct SinkLogger;
static SINK: SinkLogger = SinkLogger;
static LOGGED: std::sync::atomic::AtomicU64 = std::sync::atomic::AtomicU64::new(0);
/// workers found blocked on a lock that a parked worker held (see sched.rs)
static STALLS: std::sync::atomic::AtomicU64 = std::sync::atomic::AtomicU64::new(0);
/// waits on a contended library lock that the scheduler served (simulated futex, sched.rs)
static LOCK_WAITS: std::sync::atomic::AtomicU64 = std::sync::atomic::AtomicU64::new(0);
/// clock readings served by the fast-forward clock
static CLOCK_READS: std::sync::atomic::AtomicU64 = std::sync::atomic::AtomicU64::new(0);

impl log::Log for SinkLogger {
    fn enabled(&self, _m: &log::Metadata) -> bool {
        true
    }
    fn log(&self, record: &log::Record) {
        use std::fmt::Write;
        let mut s = String::new();
        let _ = write!(s, "{}", record.args());
        LOGGED.fetch_add(1 + (s.len() as u64 & 1), std::sync::atomic::Ordering::Relaxed);
    }
    fn flush(&self) {}
}

fn install_logger() {
    let _ = log::set_logger(&SINK);
    log::set_max_level(log::LevelFilter::Off);
}

fn set_log_env(env: &Env) {
    log::set_max_level(if env.trace_log { log::LevelFilter::Trace } else { log::LevelFilter::Off });
}

#[derive(Clone, Debug, PartialEq, Eq)]
pub struct Env {
    pub hash_seed: u64,
    pub policy: Policy,
    pub layout_seed: u64,
    /// Rust heap of the run's threads: false = system allocator, true = simulated LIFO arena
    pub lifo_heap: bool,
    /// process log level while the run executes: false = off, true = trace (every `debug!` /
    /// `trace!` of the library is formatted into a sink)
    pub trace_log: bool,
    /// the monotonic clock of the run's thread fast-forwards by up to 3 s per reading (a very
    /// slow machine); only used for single-threaded runs (sub-check a)
    pub fast_clock: bool,
    /// the caller's stack depth varies: executions are started from frames up to 3 MiB below
    /// the thread's entry point (sub-check a: the whole run; b: from step to step)
    pub deep_stack: bool,
}

/// Calls `f` from a frame that lies `kib` KiB further down the stack.
#[inline(never)]
fn at_depth<R>(kib: usize, f: &mut dyn FnMut() -> R) -> R {
    if kib == 0 {
        return f();
    }
    let mut pad = [0u8; 1024];
    std::hint::black_box(&mut pad);
    let r = at_depth(kib - 1, f);
    std::hint::black_box(&mut pad);
    r
}

/// The stack depth (KiB below the thread's entry) from which step `i` of a run is started.
fn step_depth(env: &Env, i: usize) -> usize {
    if !env.deep_stack {
        return 0;
    }
    [0, 0, 96, 1536, 3072][(rng::mix(env.layout_seed, 0x57ac + i as u64) % 5) as usize]
}

impl Env {
    fn control() -> Env {
        Env { hash_seed: CONTROL_HASH, policy: Policy::Compact, layout_seed: 0, lifo_heap: false, trace_log: false, fast_clock: false, deep_stack: false }
    }
    fn to_json(&self) -> J {
        json!({"hash_seed": self.hash_seed, "layout": self.policy.name(), "layout_seed": self.layout_seed, "lifo_heap": self.lifo_heap, "trace_log": self.trace_log, "fast_clock": self.fast_clock, "deep_stack": self.deep_stack})
    }
    fn from_json(j: &J) -> Env {
        Env {
            hash_seed: j["hash_seed"].as_u64().unwrap_or(CONTROL_HASH),
            policy: Policy::parse(j["layout"].as_str().unwrap_or("compact")).unwrap_or(Policy::Compact),
            layout_seed: j["layout_seed"].as_u64().unwrap_or(0),
            lifo_heap: j["lifo_heap"].as_bool().unwrap_or(false),
            trace_log: j["trace_log"].as_bool().unwrap_or(false),
            fast_clock: j["fast_clock"].as_bool().unwrap_or(false),
            deep_stack: j["deep_stack"].as_bool().unwrap_or(false),
        }
    }
}

#[derive(Clone, Debug, PartialEq, Eq)]
pub struct LoadExec {
    /// Ok(canonical AST) or Err(diagnostic text)
    pub load: Result<String, String>,
    pub outcome: Option<Outcome>,
    pub vars_before: Vec<(String, String)>,
    pub vars_after: Vec<(String, String)>,
    pub hash_probe: String,
    pub log: Vec<Event>,
    /// `pretty_print()` of the result graph (the text users see)
    pub pretty: Option<String>,
}

/// Loads and executes on the current thread.
fn load_exec_here(text: &str, source: &str, globs: &Globs, lazy: bool, cancel_at: Option<u64>) -> LoadExec {
    let hash_probe = entropy::hash_order_probe();
    let file = match simrun::load(text) {
        Ok(f) => f,
        Err(e) => {
            return LoadExec {
                load: Err(e),
                outcome: None,
                vars_before: vec![],
                vars_after: vec![],
                hash_probe,
                log: vec![],
                pretty: None,
            }
        }
    };
    let ast = canon::cast(&file);
    let tree = simrun::parse_python(source);
    let fns = simrun::functions();
    let vars = simrun::make_variables(globs, &[]);
    let before = simrun::variables_snapshot(&vars);
    let flag = match cancel_at {
        Some(k) => SimFlag::failing_from(k),
        None => SimFlag::counting(),
    };
    simrun::log_clear();
    let _ = simrun::take_last_pretty();
    let out = simrun::execute(&file, &tree, source, lazy, &fns, &vars, &flag);
    let log = simrun::log_take();
    let after = simrun::variables_snapshot(&vars);
    LoadExec {
        load: Ok(ast),
        outcome: Some(out),
        vars_before: before,
        vars_after: after,
        hash_probe,
        log,
        pretty: simrun::take_last_pretty(),
    }
}

fn load_exec(text: &str, source: &str, globs: &Globs, lazy: bool, cancel_at: Option<u64>, env: &Env) -> Result<LoadExec, String> {
    alloc::begin_run(env.policy, env.layout_seed);
    set_log_env(env);
    let (t, s, g) = (text.to_string(), source.to_string(), globs.clone());
    let fast = if env.fast_clock { Some(env.layout_seed | 1) } else { None };
    let depth = if env.deep_stack { 2048 } else { 0 };
    entropy::with_thread_env(env.hash_seed, env.lifo_heap, move || {
        entropy::set_thread_clock_fast(fast);
        let r = at_depth(depth, &mut || load_exec_here(&t, &s, &g, lazy, cancel_at));
        CLOCK_READS.fetch_add(entropy::thread_clock_reads(), std::sync::atomic::Ordering::Relaxed);
        entropy::set_thread_clock_fast(None);
        r
    })
}

pub struct Found {
    pub class: &'static str,
    pub detail: String,
}

fn diff(a: &LoadExec, b: &LoadExec, what: &str) -> Option<Found> {
    match (&a.load, &b.load) {
        (Ok(x), Ok(y)) => {
            if x != y {
                return Some(Found { class: "ast-differs", detail: format!("{}: canonical ASTs differ", what) });
            }
        }
        (Err(x), Err(y)) => {
            if x != y {
                return Some(Found {
                    class: "diagnostic-differs",
                    detail: format!("{}: load diagnostics differ: {:?} vs {:?}", what, x, y),
                });
            }
        }
        _ => {
            return Some(Found { class: "load-result-differs", detail: format!("{}: one load succeeded, the other failed", what) })
        }
    }
    match (&a.outcome, &b.outcome) {
        (Some(Outcome::Panic(_)), _) => None,
        (Some(x), Some(y)) => {
            if x == y {
                return None;
            }
            match (x, y) {
                (Outcome::Graph(_), Outcome::Graph(_)) => Some(Found {
                    class: "graph-differs",
                    detail: format!("{}: graphs differ: {} vs {}", what, x.brief(), y.brief()),
                }),
                (Outcome::Error(e1), Outcome::Error(e2)) => Some(Found {
                    class: "error-differs",
                    detail: format!("{}: errors differ: {:?} vs {:?}", what, e1.display, e2.display),
                }),
                (_, Outcome::Panic(m)) => Some(Found { class: "panic-under-env", detail: format!("{}: panicked: {}", what, m) }),
                _ => Some(Found {
                    class: "outcome-class-differs",
                    detail: format!("{}: {} vs {}", what, x.brief(), y.brief()),
                }),
            }
        }
        (None, None) => None,
        _ => Some(Found { class: "outcome-class-differs", detail: format!("{}: execution happened in one run only", what) }),
    }
}

// ---------------------------------------------------------------------------------------------
// Case generation

#[derive(Clone, Debug)]
pub struct Inputs {
    pub kind: String,
    pub text: String,
    pub sources: Vec<String>,
    pub globs: Globs,
    /// alternative supplies of the globals for individual steps of a history or tasks of a
    /// worker (index 0 is `globs`): a defaulted global supplied / omitted, other values
    pub alt_globs: Vec<Globs>,
    /// structural twins of the program (same shapes, different literals, failing at run time):
    /// other files loaded, executed and dropped on the same thread during a history
    pub variants: Vec<String>,
}

fn unused_captures_program(r: &mut Rng) -> String {
    let shapes: Vec<&gen::QShape> = gen::SHAPES
        .iter()
        .filter(|s| s.caps.iter().filter(|c| !c.0.starts_with('_')).count() >= 2)
        .collect();
    let s = *r.pick(&shapes);
    let extra = r.range(0, 3);
    // a query with additional captures on wildcard children to widen the unused set
    let mut q = s.text.to_string();
    if s.text == "(module (_)* @stmts) @m" && extra > 0 {
        q = "(module (_) @a (_) @b (_) @c) @m".to_string();
    }
    format!("{}\n{{\n  node n\n}}\n", q)
}

fn multi_fault_program(r: &mut Rng) -> String {
    // several scoped variables, each defined twice on the same node: which duplicate is
    // reported first must not depend on the environment
    let n = r.range(2, 5);
    let names: Vec<String> = (0..n).map(|i| format!("v{}", (b'a' + i as u8) as char)).collect();
    let target = *r.pick(&["(module) @m", "(identifier) @m", "(pass_statement) @m", "(call) @m"]);
    let mut body = String::new();
    for nm in &names {
        body.push_str(&format!("  let @m.{} = {}\n", nm, r.below(9)));
    }
    let mut out = String::new();
    let copies = r.range(2, 3);
    for _ in 0..copies {
        out.push_str(&format!("{}\n{{\n{}}}\n\n", target, body));
    }
    if r.chance(1, 2) {
        // conflicting attributes on several names as well
        out.push_str("(module) @q\n{\n  node z\n  attr (z) a1 = 1, a2 = 2, a3 = 3\n  attr (z) a3 = 0, a2 = 0, a1 = 0\n  let _u = @q\n}\n");
    }
    out
}

pub fn make_inputs(seed: u64, tier: Tier, ticks: bool) -> Inputs {
    let mut r = Rng::sub(seed, "inputs");
    let scfg = pysrc::SrcCfg { max_stmts: if tier == Tier::Quick { 8 } else { 20 }, ..Default::default() };
    let nsrc = r.range(2, 3);
    let mut sources: Vec<String> = Vec::new();
    for i in 0..nsrc {
        if r.chance(1, 5) {
            sources.push(r.pick(&pysrc::corpus()).to_string());
        } else {
            sources.push(pysrc::gen_source(&mut Rng::sub(seed, &format!("src{}", i)), &scfg));
        }
    }
    if r.chance(1, 2) {
        // two sources that differ by one leading statement: the same nodes, one sibling
        // position further on
        sources[1] = format!("pass\n{}", sources[0]);
    }
    match r.below(11) {
        0 => Inputs { kind: "unused-captures".into(), text: unused_captures_program(&mut r), sources, globs: vec![], alt_globs: vec![vec![]], variants: vec![] },
        10 => {
            // string functions of the standard library whose arguments agree between calls
            // except for one that comes from a global: what they return is a function of all
            // their arguments, in this call (no memory of an earlier call on the thread)
            let s = |x: &str| simrun::GVal::Str(x.into());
            let supply = |rep: &str, sep: &str| vec![("rep".to_string(), s(rep)), ("sep".to_string(), s(sep))];
            Inputs {
                kind: "string-functions-with-global".into(),
                text: "global rep\nglobal sep\n\n(identifier) @i\n{\n  node n\n  attr (n) r1 = (replace (source-text @i) \"[a-z]\" rep), r2 = (replace \"banana\" \"an\" rep), j = (join [(source-text @i), rep] sep), f = (format \"{}{}\" rep sep)\n}\n".into(),
                sources,
                globs: supply("A", "-"),
                alt_globs: vec![supply("A", "-"), supply("B", "-"), supply("", "+"), supply("another value", "")],
                variants: vec![],
            }
        }
        3 => Inputs {
            // every syntax function of the standard library applied to every statement and
            // identifier: what they return is a function of the node, not of its address
            kind: "syntax-functions".into(),
            text: "(module (_) @s)\n{\n  node n\n  attr (n) idx = (named-child-index @s), cnt = (named-child-count @s), ty = (node-type @s), sr = (start-row @s), sc = (start-column @s), er = (end-row @s), ec = (end-column @s), tx = (source-text @s)\n}\n\n(identifier) @i\n{\n  node m\n  attr (m) idx = (named-child-index @i), cnt = (named-child-count @i), ty = (node-type @i), sr = (start-row @i), sc = (start-column @i), tx = (source-text @i)\n}\n".into(),
            sources,
            globs: vec![],
            alt_globs: vec![vec![]],
            variants: vec![],
        },
        1 | 2 => Inputs { kind: "multi-fault".into(), text: multi_fault_program(&mut r), sources, globs: vec![], alt_globs: vec![vec![]], variants: vec![] },
        k => {
            let cfg = gen::GenCfg {
                ticks,
                fault_permille: if k < 5 { 60 } else { 0 },
                ..Default::default()
            };
            let g = gen::gen_program(&mut Rng::sub(seed, "prog"), &cfg);
            let globs = gen::supply_globals(&mut Rng::sub(seed, "globals"), &g.needed_globals);
            let variants = (1..=3u32).map(|k| gen::twin(&g.prog, k, true).render()).collect();
            // alternative supplies: toggle every defaulted global, change a value
            let mut alt_globs = vec![globs.clone()];
            let defaulted: Vec<String> = g.prog.globals.iter().filter(|d| d.default.is_some()).map(|d| d.name.clone()).collect();
            if !defaulted.is_empty() {
                let mut a = globs.clone();
                for d in &defaulted {
                    if a.iter().any(|(k, _)| k == d) {
                        a.retain(|(k, _)| k != d);
                    } else {
                        a.push((d.clone(), simrun::GVal::Str("supplied".into())));
                    }
                }
                alt_globs.push(a);
            }
            if let Some(i) = globs.iter().position(|(_, v)| matches!(v, simrun::GVal::Str(_))) {
                let mut a = globs.clone();
                a[i].1 = simrun::GVal::Str("another value".into());
                alt_globs.push(a);
            }
            // an ill-typed supply (a string for a list global) and an incomplete one: the same
            // loaded file must report them although an earlier call was given a good supply
            if let Some(i) = globs.iter().position(|(_, v)| matches!(v, simrun::GVal::List(_))) {
                let mut a = globs.clone();
                a[i].1 = simrun::GVal::Str("not a list".into());
                alt_globs.push(a);
            }
            if !globs.is_empty() {
                let mut a = globs.clone();
                a.remove(0);
                alt_globs.push(a);
            }
            Inputs { kind: "generated".into(), text: g.prog.render(), sources, globs, alt_globs, variants }
        }
    }
}

/// Rare, heavy inputs for sub-check (c): every statement's index is one more than its
/// predecessor's, over more than a thousand statements — in lazy mode a chain of values that is
/// forced from its far end, with a poll (a yield point) at every level.  Several workers are
/// deep inside their own chain at the same time.
fn deep_chain_inputs(r: &mut Rng) -> Inputs {
    let text = r#"(module . (expression_statement) @first)
{
  let @first.index = 0
}

(module (expression_statement) @prev . (expression_statement) @stmt)
{
  let @stmt.index = (plus @prev.index 1)
}

(module (expression_statement) @last .) @mod
{
  let @mod.last = @last.index
}

(module (expression_statement)+ @_stmts) @mod
{
  node @mod.mnode
  attr (@mod.mnode) kind = "module", last = @mod.last
}
"#;
    let sources = (0..2)
        .map(|_| {
            let n = r.range(1050, 1400);
            (0..n).map(|i| format!("v{}\n", i)).collect::<String>()
        })
        .collect();
    Inputs { kind: "deep-chain".into(), text: text.into(), sources, globs: vec![], alt_globs: vec![vec![]], variants: vec![] }
}

fn inputs_json(i: &Inputs) -> J {
    json!({"kind": i.kind, "tsg": i.text, "sources": i.sources, "globals": simrun::globs_json(&i.globs), "alt_globals": i.alt_globs.iter().map(simrun::globs_json).collect::<Vec<_>>(), "variants": i.variants})
}

fn inputs_from_json(j: &J) -> Inputs {
    Inputs {
        kind: j["kind"].as_str().unwrap_or("").to_string(),
        text: j["tsg"].as_str().unwrap_or("").to_string(),
        sources: j["sources"]
            .as_array()
            .map(|a| a.iter().filter_map(|x| x.as_str().map(|s| s.to_string())).collect())
            .unwrap_or_default(),
        globs: simrun::globs_from_json(&j["globals"]),
        alt_globs: {
            let v: Vec<Globs> = j["alt_globals"].as_array().map(|a| a.iter().map(simrun::globs_from_json).collect()).unwrap_or_default();
            if v.is_empty() {
                vec![simrun::globs_from_json(&j["globals"])]
            } else {
                v
            }
        },
        variants: j["variants"]
            .as_array()
            .map(|a| a.iter().filter_map(|x| x.as_str().map(|s| s.to_string())).collect())
            .unwrap_or_default(),
    }
}

fn random_env(r: &mut Rng) -> Env {
    Env {
        hash_seed: r.next() | 1,
        policy: Policy::ALL[r.below(6)],
        layout_seed: r.next(),
        lifo_heap: r.chance(1, 2),
        trace_log: r.chance(1, 3),
        fast_clock: r.chance(1, 3),
        deep_stack: r.chance(1, 3),
    }
}

// ---------------------------------------------------------------------------------------------
// (a) environments

#[derive(Default)]
struct AStats {
    executions: u64,
    hash_classes: usize,
    statements: bool,
    outcome: &'static str,
    transcript: u64,
    discarded: bool,
}

fn check_a(inp: &Inputs, lazy: bool, envs: &[Env]) -> Result<(AStats, Option<(Found, Env)>), String> {
    let mut st = AStats::default();
    let ctl = load_exec(&inp.text, &inp.sources[0], &inp.globs, lazy, None, &Env::control())?;
    st.executions += 1;
    if let Some(Outcome::Panic(_)) = ctl.outcome {
        st.discarded = true;
        return Ok((st, None));
    }
    st.outcome = match &ctl.outcome {
        None => "load-error",
        Some(o) => o.class(),
    };
    st.statements = !ctl.log.is_empty();
    st.transcript = rng::hash_str(&format!("{:?}{:?}", ctl.load, ctl.outcome));
    if ctl.vars_before != ctl.vars_after {
        return Ok((st, Some((Found { class: "globals-modified", detail: format!("caller's variables changed: {:?} -> {:?}", ctl.vars_before, ctl.vars_after) }, Env::control()))));
    }
    let mut probes = std::collections::BTreeSet::new();
    probes.insert(ctl.hash_probe.clone());
    for e in envs {
        let r = load_exec(&inp.text, &inp.sources[0], &inp.globs, lazy, None, e)?;
        st.executions += 1;
        probes.insert(r.hash_probe.clone());
        if let Some(f) = diff(&ctl, &r, &format!("control vs hash_seed={:#x} layout={}", e.hash_seed, e.policy.name())) {
            st.hash_classes = probes.len();
            return Ok((st, Some((f, e.clone()))));
        }
        if r.pretty != ctl.pretty {
            st.hash_classes = probes.len();
            return Ok((st, Some((Found { class: "pretty-print-differs", detail: format!("pretty-printed graphs differ between environments: {:?} vs {:?}", ctl.pretty.as_deref().map(|s| s.chars().take(200).collect::<String>()), r.pretty.as_deref().map(|s| s.chars().take(200).collect::<String>())) }, e.clone()))));
        }
        if r.log != ctl.log {
            st.hash_classes = probes.len();
            return Ok((st, Some((Found { class: "event-log-differs", detail: "poll/tick sequence differs between environments".into() }, e.clone()))));
        }
    }
    st.hash_classes = probes.len();
    Ok((st, None))
}

// ---------------------------------------------------------------------------------------------
// (b) reuse history

#[derive(Clone, Debug, PartialEq, Eq)]
pub enum Step {
    Exec { tree: usize, lazy: bool, cancel_at: Option<u64>, gv: usize },
    Reparse { tree: usize },
    /// free two trees, then parse them again in the other order: under a LIFO allocator each
    /// takes over addresses of the other (same node ids, different content)
    Exchange { a: usize, b: usize },
    Reload,
    /// load another file (a structural twin), execute it on the same thread, drop it
    OtherFile { variant: usize, tree: usize, lazy: bool },
    /// try to load a text that the loader rejects (kind 0: parse error in a later stanza,
    /// 1: check error, 2: query error); the rejection must leave nothing behind
    LoadBroken { kind: usize },
}

fn step_json(s: &Step) -> J {
    match s {
        Step::Exec { tree, lazy, cancel_at, gv } => json!({"op": "exec", "tree": tree, "lazy": lazy, "cancel_at": cancel_at, "globals_variant": gv}),
        Step::Reparse { tree } => json!({"op": "reparse", "tree": tree}),
        Step::Exchange { a, b } => json!({"op": "exchange", "a": a, "b": b}),
        Step::Reload => json!({"op": "reload"}),
        Step::OtherFile { variant, tree, lazy } => json!({"op": "other-file", "variant": variant, "tree": tree, "lazy": lazy}),
        Step::LoadBroken { kind } => json!({"op": "load-broken", "kind": kind}),
    }
}

fn step_from_json(j: &J) -> Step {
    match j["op"].as_str().unwrap_or("") {
        "exec" => Step::Exec {
            tree: j["tree"].as_u64().unwrap_or(0) as usize,
            lazy: j["lazy"].as_bool().unwrap_or(false),
            cancel_at: j["cancel_at"].as_u64(),
            gv: j["globals_variant"].as_u64().unwrap_or(0) as usize,
        },
        "reparse" => Step::Reparse { tree: j["tree"].as_u64().unwrap_or(0) as usize },
        "exchange" => Step::Exchange { a: j["a"].as_u64().unwrap_or(0) as usize, b: j["b"].as_u64().unwrap_or(0) as usize },
        "load-broken" => Step::LoadBroken { kind: j["kind"].as_u64().unwrap_or(0) as usize },
        "other-file" => Step::OtherFile {
            variant: j["variant"].as_u64().unwrap_or(0) as usize,
            tree: j["tree"].as_u64().unwrap_or(0) as usize,
            lazy: j["lazy"].as_bool().unwrap_or(false),
        },
        _ => Step::Reload,
    }
}

fn gen_steps(r: &mut Rng, ntrees: usize, nvariants: usize, nglobs: usize, max: usize) -> Vec<Step> {
    let n = r.range(2, max);
    (0..n)
        .map(|_| match r.below(14) {
            0 | 1 => Step::Reparse { tree: r.below(ntrees) },
            3 => Step::Exchange { a: r.below(ntrees), b: r.below(ntrees) },
            2 => Step::Reload,
            12 | 13 => Step::LoadBroken { kind: r.below(3) },
            10 | 11 if nvariants > 0 => Step::OtherFile { variant: r.below(nvariants), tree: r.below(ntrees), lazy: r.chance(1, 2) },
            _ => Step::Exec {
                tree: r.below(ntrees),
                lazy: r.chance(1, 2),
                cancel_at: if r.chance(1, 4) { Some(1 + r.below(40) as u64) } else { None },
                gv: if r.chance(1, 2) { 0 } else { r.below(nglobs.max(1)) },
            },
        })
        .collect()
}

#[derive(Default)]
struct BStats {
    executions: u64,
    cancelled_steps: u64,
    failed_then_ok: u64,
    recycled: u64,
    other_files: u64,
    broken_loads: u64,
    globals_varied: bool,
    statements: bool,
    transcript: u64,
    discarded: bool,
    deep_steps: u64,
}

/// A text the loader rejects, built from the run's own program so that the stanzas before the
/// fault are read and accepted first.
fn broken_text(text: &str, kind: usize) -> String {
    match kind {
        0 => format!("{}\n(identifier) @zz\n{{\n  let = 1\n}}\n", text),
        1 => format!("{}\n(identifier) @zz\n{{\n  node n\n  node n\n}}\n", text),
        _ => format!("{}\n(identifier @zz\n{{\n  node n\n}}\n", text),
    }
}

fn isolated(inp: &Inputs, tree: usize, lazy: bool, cancel_at: Option<u64>, gv: usize) -> Result<LoadExec, String> {
    load_exec(&inp.text, &inp.sources[tree], &inp.alt_globs[gv.min(inp.alt_globs.len() - 1)], lazy, cancel_at, &Env::control())
}

fn check_b(inp: &Inputs, steps: &[Step], env: &Env) -> Result<(BStats, Option<Found>), String> {
    let mut st = BStats::default();
    // isolated references first (control environment, fresh everything)
    let mut refs: Vec<Option<LoadExec>> = Vec::new();
    for s in steps {
        refs.push(match s {
            Step::Exec { tree, lazy, cancel_at, gv } => {
                st.executions += 1;
                Some(isolated(inp, *tree, *lazy, *cancel_at, *gv)?)
            }
            Step::OtherFile { variant, tree, lazy } => {
                st.executions += 1;
                Some(load_exec(&inp.variants[*variant], &inp.sources[*tree], &inp.globs, *lazy, None, &Env::control())?)
            }
            _ => None,
        });
    }
    if refs.iter().flatten().any(|r| matches!(r.outcome, Some(Outcome::Panic(_)))) {
        st.discarded = true;
        return Ok((st, None));
    }
    if refs.iter().flatten().any(|r| r.load.is_err()) {
        st.discarded = true;
        return Ok((st, None));
    }
    alloc::begin_run(env.policy, env.layout_seed);
    set_log_env(env);
    let (inp2, steps2, refs2) = (inp.clone(), steps.to_vec(), refs.clone());
    let env2 = env.clone();
    let r = entropy::with_thread_env(env.hash_seed, env.lifo_heap, move || -> (BStats, Option<Found>) {
        let mut st = BStats::default();
        let inp = inp2;
        let env = env2;
        let file = match simrun::load(&inp.text) {
            Ok(f) => f,
            Err(_) => return (st, None),
        };
        let ast0 = canon::cast(&file);
        // another caller's function table (an override and an extra function), built first and
        // kept alive for the whole history: it must not leak into ours
        let _theirs = if steps2.len() % 2 == 0 { Some(simrun::functions_of_another_caller()) } else { None };
        let fns = simrun::functions();
        // one caller-side variable set per supply variant, all kept for the whole history
        let all_vars: Vec<tree_sitter_graph::Variables> = inp.alt_globs.iter().map(|g| simrun::make_variables(g, &[])).collect();
        let all_vars0: Vec<Vec<(String, String)>> = all_vars.iter().map(simrun::variables_snapshot).collect();
        let vars = &all_vars[0];
        let mut gvs_used = std::collections::BTreeSet::new();
        let mut trees: Vec<Option<tree_sitter::Tree>> = inp.sources.iter().map(|s| Some(simrun::parse_python(s))).collect();
        let mut root_ids: Vec<usize> = trees.iter().map(|t| t.as_ref().unwrap().root_node().id()).collect();
        let mut seen_ids: std::collections::BTreeSet<usize> = Default::default();
        let mut prev_failed = false;
        let mut th = 0u64;
        for (i, s) in steps2.iter().enumerate() {
            match s {
                Step::Reparse { tree } => {
                    seen_ids.extend(alloc::all_node_ids(trees[*tree].as_ref().unwrap()));
                    trees[*tree] = None; // free first so that addresses can be recycled
                    let t = simrun::parse_python(&inp.sources[*tree]);
                    let id = t.root_node().id();
                    if alloc::all_node_ids(&t).iter().any(|i| seen_ids.contains(i)) {
                        st.recycled += 1;
                    }
                    root_ids[*tree] = id;
                    trees[*tree] = Some(t);
                }
                Step::Exchange { a, b } => {
                    for t in [*a, *b] {
                        if let Some(old) = trees[t].as_ref() {
                            seen_ids.extend(alloc::all_node_ids(old));
                        }
                        trees[t] = None;
                    }
                    for t in [*b, *a] {
                        if trees[t].is_none() {
                            let nt = simrun::parse_python(&inp.sources[t]);
                            if alloc::all_node_ids(&nt).iter().any(|i| seen_ids.contains(i)) {
                                st.recycled += 1;
                            }
                            root_ids[t] = nt.root_node().id();
                            trees[t] = Some(nt);
                        }
                    }
                }
                Step::Reload => {
                    match simrun::load(&inp.text) {
                        Ok(f2) => {
                            if canon::cast(&f2) != ast0 {
                                return (st, Some(Found { class: "ast-differs", detail: format!("step {}: re-loading the text gave a different AST", i) }));
                            }
                        }
                        Err(e) => {
                            return (st, Some(Found { class: "load-result-differs", detail: format!("step {}: re-loading the text failed: {}", i, e) }));
                        }
                    }
                }
                Step::LoadBroken { kind } => {
                    st.broken_loads += 1;
                    if simrun::load(&broken_text(&inp.text, *kind)).is_ok() {
                        // not a verdict of this check (C06/C07 territory); just not a fault then
                        st.broken_loads -= 1;
                    }
                }
                Step::OtherFile { variant, tree, lazy } => {
                    let other = match simrun::load(&inp.variants[*variant]) {
                        Ok(f) => f,
                        Err(e) => {
                            return (st, Some(Found { class: "load-result-differs", detail: format!("step {}: another file that loads in isolation was rejected here: {}", i, e) }));
                        }
                    };
                    let flag = SimFlag::counting();
                    simrun::log_clear();
                    let out = simrun::execute(&other, trees[*tree].as_ref().unwrap(), &inp.sources[*tree], *lazy, &fns, vars, &flag);
                    simrun::log_clear();
                    drop(other);
                    st.executions += 1;
                    st.other_files += 1;
                    th = rng::mix(th, rng::hash_str(&format!("{:?}", out)));
                    let iso = refs2[i].as_ref().unwrap().outcome.as_ref().unwrap();
                    if &out != iso {
                        return (st, Some(Found {
                            class: "history-result-differs",
                            detail: format!(
                                "step {} ({:?}): another file loaded, executed and dropped on the same thread gave {} but in isolation it gives {}",
                                i, s, out.brief(), iso.brief()
                            ),
                        }));
                    }
                }
                Step::Exec { tree, lazy, cancel_at, gv } => {
                    let flag = match cancel_at {
                        Some(k) => SimFlag::failing_from(*k),
                        None => SimFlag::counting(),
                    };
                    let gv = (*gv).min(all_vars.len() - 1);
                    gvs_used.insert(gv);
                    if gvs_used.len() > 1 {
                        st.globals_varied = true;
                    }
                    let vars = &all_vars[gv];
                    let vars0 = &all_vars0[gv];
                    simrun::log_clear();
                    let depth = step_depth(&env, i);
                    if depth > 1024 {
                        st.deep_steps += 1;
                    }
                    let out = at_depth(depth, &mut || simrun::execute(&file, trees[*tree].as_ref().unwrap(), &inp.sources[*tree], *lazy, &fns, vars, &flag));
                    let log = simrun::log_take();
                    st.executions += 1;
                    st.statements |= !log.is_empty();
                    th = rng::mix(th, rng::hash_str(&format!("{:?}", out)));
                    let iso = refs2[i].as_ref().unwrap();
                    let isolated_out = iso.outcome.as_ref().unwrap();
                    if let Outcome::Error(e) = &out {
                        if e.top_is_cancelled {
                            st.cancelled_steps += 1;
                        }
                    }
                    if prev_failed && matches!(out, Outcome::Graph(_)) {
                        st.failed_then_ok += 1;
                    }
                    prev_failed = matches!(out, Outcome::Error(_));
                    if &out != isolated_out {
                        let class = if matches!(out, Outcome::Panic(_)) { "panic-in-history" } else { "history-result-differs" };
                        return (st, Some(Found {
                            class,
                            detail: format!(
                                "step {} ({:?}) on the reused file gave {} but an isolated run gives {}",
                                i, s, out.brief(), isolated_out.brief()
                            ),
                        }));
                    }
                    if log != iso.log {
                        return (st, Some(Found { class: "event-log-differs", detail: format!("step {}: poll/tick sequence differs from the isolated run", i) }));
                    }
                    let now = simrun::variables_snapshot(vars);
                    if &now != vars0 {
                        return (st, Some(Found { class: "globals-modified", detail: format!("step {}: caller's variables changed: {:?} -> {:?}", i, vars0, now) }));
                    }
                    if canon::cast(&file) != ast0 {
                        return (st, Some(Found { class: "file-mutated", detail: format!("step {}: the loaded file's AST changed", i) }));
                    }
                }
            }
        }
        st.transcript = th;
        (st, None)
    })?;
    let (mut st2, f) = r;
    st2.executions += st.executions;
    Ok((st2, f))
}

// ---------------------------------------------------------------------------------------------
// (c) concurrent sharing

#[derive(Clone, Debug)]
pub struct Task {
    pub tree: usize,
    pub lazy: bool,
    pub cancel_at: Option<u64>,
    pub reload: bool,
    pub gv: usize,
}

#[derive(Clone, Debug)]
pub struct Plan {
    pub workers: Vec<Vec<Task>>,
    pub strategy: Strategy,
    pub sched_seed: u64,
    pub worker_hash: Vec<u64>,
}

fn plan_json(p: &Plan) -> J {
    json!({
        "strategy": p.strategy.name(),
        "sched_seed": p.sched_seed,
        "worker_hash": p.worker_hash,
        "workers": p.workers.iter().map(|w| w.iter().map(|t| json!({"tree": t.tree, "lazy": t.lazy, "cancel_at": t.cancel_at, "reload": t.reload, "globals_variant": t.gv})).collect::<Vec<_>>()).collect::<Vec<_>>(),
    })
}

fn plan_from_json(j: &J) -> Plan {
    Plan {
        strategy: Strategy::parse(j["strategy"].as_str().unwrap_or("random")),
        sched_seed: j["sched_seed"].as_u64().unwrap_or(0),
        worker_hash: j["worker_hash"].as_array().map(|a| a.iter().map(|x| x.as_u64().unwrap_or(1)).collect()).unwrap_or_default(),
        workers: j["workers"]
            .as_array()
            .map(|a| {
                a.iter()
                    .map(|w| {
                        w.as_array()
                            .map(|ts| {
                                ts.iter()
                                    .map(|t| Task {
                                        tree: t["tree"].as_u64().unwrap_or(0) as usize,
                                        lazy: t["lazy"].as_bool().unwrap_or(false),
                                        cancel_at: t["cancel_at"].as_u64(),
                                        reload: t["reload"].as_bool().unwrap_or(false),
                                        gv: t["globals_variant"].as_u64().unwrap_or(0) as usize,
                                    })
                                    .collect()
                            })
                            .unwrap_or_default()
                    })
                    .collect()
            })
            .unwrap_or_default(),
    }
}

fn gen_plan(r: &mut Rng, ntrees: usize, nglobs: usize) -> Plan {
    let n = r.range(2, 4);
    let workers = (0..n)
        .map(|_| {
            let k = r.range(1, 3);
            (0..k)
                .map(|_| Task {
                    tree: r.below(ntrees),
                    lazy: r.chance(1, 2),
                    cancel_at: if r.chance(1, 4) { Some(1 + r.below(30) as u64) } else { None },
                    reload: r.chance(1, 6),
                    gv: if r.chance(1, 2) { 0 } else { r.below(nglobs.max(1)) },
                })
                .collect()
        })
        .collect();
    let strategy = match r.below(8) {
        0 => Strategy::RoundRobin(1),
        1 => Strategy::RoundRobin(1 + r.below(5) as u32),
        2 => Strategy::RunToCompletion,
        3 => Strategy::Pct(1 + r.below(4) as u32),
        4 => Strategy::Starve(r.below(n)),
        _ => Strategy::Random,
    };
    Plan { workers, strategy, sched_seed: r.next(), worker_hash: (0..n).map(|_| r.next() | 1).collect() }
}

#[derive(Default)]
struct CStats {
    executions: u64,
    yield_points: u64,
    switches: u64,
    switch_inside: u64,
    cancel_other: u64,
    trace: u64,
    statements: bool,
    discarded: bool,
}

struct FinishGuard<'a>(&'a Sched, usize);
impl Drop for FinishGuard<'_> {
    fn drop(&mut self) {
        simrun::set_yield_hook(None);
        self.0.finish(self.1);
    }
}

fn check_c(inp: &Inputs, plan: &Plan, env: &Env) -> Result<(CStats, Option<Found>), String> {
    let before = STALLS.load(std::sync::atomic::Ordering::Relaxed);
    let (st, f) = check_c_inner(inp, plan, env)?;
    let stalled = STALLS.load(std::sync::atomic::Ordering::Relaxed) > before;
    // once the scheduler had to take the processor back from a blocked worker the interleaving
    // is no longer fully controlled: which symptom shows up varies, so they share one class
    Ok((st, f.map(|f| if stalled { Found { class: "shared-run-diverges-after-scheduler-stall", detail: format!("{} [{}]", f.detail, f.class) } } else { f })))
}

fn check_c_inner(inp: &Inputs, plan: &Plan, env: &Env) -> Result<(CStats, Option<Found>), String> {
    let mut st = CStats::default();
    // isolated references, before
    let mut refs: Vec<Vec<LoadExec>> = Vec::new();
    for w in &plan.workers {
        let mut v = Vec::new();
        for t in w {
            let r = isolated(inp, t.tree, t.lazy, t.cancel_at, t.gv)?;
            st.executions += 1;
            if r.load.is_err() || matches!(r.outcome, Some(Outcome::Panic(_))) {
                st.discarded = true;
                return Ok((st, None));
            }
            v.push(r);
        }
        refs.push(v);
    }
    let est: u64 = refs.iter().flatten().map(|r| r.log.len() as u64 + 2).sum();
    let some_cancel = plan.workers.iter().flatten().any(|t| t.cancel_at.is_some());
    let some_plain = plan.workers.iter().flatten().any(|t| t.cancel_at.is_none());

    alloc::begin_run(env.policy, env.layout_seed);
    set_log_env(env);
    let inp_a = Arc::new(inp.clone());
    let plan_a = plan.clone();
    let hash = env.hash_seed;
    let lifo = env.lifo_heap;
    type WorkerOut = Vec<(Outcome, Vec<Event>, Option<String>)>;
    let run = entropy::with_thread_env(hash, lifo, move || -> Result<(Vec<WorkerOut>, (u64, u64, u64, Vec<(String, u64)>, bool)), String> {
        let inp = inp_a;
        let file = simrun::load(&inp.text).map_err(|e| format!("load: {}", e))?;
        let ast0 = canon::cast(&file);
        let _theirs = if plan_a.workers.len() % 2 == 0 { Some(simrun::functions_of_another_caller()) } else { None };
        let fns = simrun::functions();
        let sched = Sched::new(plan_a.workers.len(), plan_a.sched_seed, plan_a.strategy, est);
        let results: Vec<Result<WorkerOut, String>> = std::thread::scope(|sc| {
            let mut hs = Vec::new();
            for (wi, tasks) in plan_a.workers.iter().enumerate() {
                let (file, fns, sched, inp, ast0) = (&file, &fns, &sched, inp.clone(), &ast0);
                let wh = plan_a.worker_hash[wi];
                let tasks = tasks.clone();
                hs.push(
                    std::thread::Builder::new()
                        .stack_size(64 << 20)
                        .spawn_scoped(sc, move || -> WorkerOut {
                            entropy::set_thread_hash_seed(wh);
                            crate::heap::set_thread_active(lifo);
                            sched.start(wi);
                            let _g = FinishGuard(sched, wi);
                            let sp: *const Sched = sched;
                            // SAFETY: the hook is removed by FinishGuard before `sched` goes away
                            simrun::set_yield_hook(Some(Box::new(move |label: &str| unsafe { (*sp).yield_point(wi, label) })));
                            let all_vars: Vec<tree_sitter_graph::Variables> = inp.alt_globs.iter().map(|g| simrun::make_variables(g, &[])).collect();
                            let mut out = Vec::new();
                            // each worker parses its own trees: allocations interleave too
                            let mut trees: Vec<Option<tree_sitter::Tree>> = inp.sources.iter().map(|_| None).collect();
                            for t in &tasks {
                                sched.yield_point(wi, "task");
                                if trees[t.tree].is_none() {
                                    trees[t.tree] = Some(simrun::parse_python(&inp.sources[t.tree]));
                                }
                                let mut note = None;
                                if t.reload {
                                    match simrun::load(&inp.text) {
                                        Ok(f2) => {
                                            if &canon::cast(&f2) != ast0 {
                                                note = Some("re-loading the text on a worker gave a different AST".to_string());
                                            }
                                        }
                                        Err(e) => note = Some(format!("re-loading the text on a worker failed: {}", e)),
                                    }
                                }
                                let flag = match t.cancel_at {
                                    Some(k) => SimFlag::failing_from(k),
                                    None => SimFlag::counting(),
                                };
                                simrun::log_clear();
                                let vars = &all_vars[t.gv.min(all_vars.len() - 1)];
                                let o = simrun::execute(file, trees[t.tree].as_ref().unwrap(), &inp.sources[t.tree], t.lazy, fns, vars, &flag);
                                let log = simrun::log_take();
                                out.push((o, log, note));
                            }
                            out
                        })
                        .expect("spawn worker"),
                );
            }
            hs.into_iter()
                .map(|h| h.join().map_err(|e| entropy::panic_message(&e)))
                .collect()
        });
        let mut outs = Vec::new();
        for r in results {
            outs.push(r?);
        }
        if canon::cast(&file) != ast0 {
            return Err("FILE-MUTATED".into());
        }
        STALLS.fetch_add(sched.stalls(), std::sync::atomic::Ordering::Relaxed);
        LOCK_WAITS.fetch_add(sched.futex_stats().0, std::sync::atomic::Ordering::Relaxed);
        Ok((outs, sched.summary()))
    })?;
    let (outs, (trace, yields, switches, switch_labels, overrun)) = match run {
        Ok(x) => x,
        Err(e) if e == "FILE-MUTATED" => {
            return Ok((st, Some(Found { class: "file-mutated", detail: "the shared file's AST changed during concurrent execution".into() })))
        }
        Err(e) => return Err(e),
    };
    if overrun {
        return Err("scheduler step budget exceeded".into());
    }
    st.trace = trace;
    st.yield_points = yields;
    st.switches = switches;
    st.switch_inside = switch_labels.iter().filter(|(l, _)| l != "task").count() as u64;
    if some_cancel && some_plain && plan.workers.len() > 1 {
        st.cancel_other = 1;
    }
    for (wi, w) in outs.iter().enumerate() {
        for (ti, (o, log, note)) in w.iter().enumerate() {
            st.executions += 1;
            st.statements |= !log.is_empty();
            let iso = &refs[wi][ti];
            if let Some(n) = note {
                return Ok((st, Some(Found { class: "ast-differs", detail: format!("worker {} task {}: {}", wi, ti, n) })));
            }
            if Some(o) != iso.outcome.as_ref() {
                let class = if matches!(o, Outcome::Panic(_)) { "panic-when-shared" } else { "shared-result-differs" };
                return Ok((st, Some(Found {
                    class,
                    detail: format!(
                        "worker {} task {} ({:?}) gave {} while sharing the file; isolated: {}",
                        wi, ti, plan.workers[wi][ti], o.brief(), iso.outcome.as_ref().unwrap().brief()
                    ),
                })));
            }
            if log != &iso.log {
                return Ok((st, Some(Found { class: "event-log-differs", detail: format!("worker {} task {}: its poll/tick sequence differs from the isolated run", wi, ti) })));
            }
        }
    }
    // isolated references again, after: nothing may have been polluted over time
    for (wi, w) in plan.workers.iter().enumerate() {
        for (ti, t) in w.iter().enumerate() {
            let r = isolated(inp, t.tree, t.lazy, t.cancel_at, t.gv)?;
            st.executions += 1;
            if r != refs[wi][ti] {
                return Ok((st, Some(Found { class: "pollution-over-time", detail: format!("isolated run of worker {} task {} changed after the concurrent phase", wi, ti) })));
            }
        }
    }
    Ok((st, None))
}

// ---------------------------------------------------------------------------------------------
// (e) a long history of loads in one process: re-loading an old text must give the old AST

fn load_only(text: &str) -> Result<Result<String, String>, String> {
    alloc::begin_run(Policy::Compact, 0); // recycle the syntax-tree arena: nothing is live here
    let t = text.to_string();
    entropy::with_hash_seed(CONTROL_HASH, move || simrun::load(&t).map(|f| canon::cast(&f)))
}

fn check_e(target: &str, interim: &[String]) -> Result<Option<Found>, String> {
    let first = load_only(target)?;
    for t in interim {
        let _ = load_only(t)?;
    }
    let again = load_only(target)?;
    Ok(if first != again {
        Some(Found {
            class: "load-differs-after-history",
            detail: format!("after {} other loads in the same process, loading the same text again gives a different AST or diagnostic", interim.len()),
        })
    } else {
        None
    })
}

// ---------------------------------------------------------------------------------------------
// driver

fn violation(sub: &str, inp: &Inputs, f: &Found, extra: J) -> Violation {
    let mut sc = json!({"sub": sub, "inputs": inputs_json(inp)});
    if let (Some(a), Some(b)) = (sc.as_object_mut(), extra.as_object()) {
        for (k, v) in b {
            a.insert(k.clone(), v.clone());
        }
    }
    Violation {
        class: f.class.to_string(),
        signature: format!("{} sub={} kind={}", f.class, sub, inp.kind),
        summary: format!("[C12{} {}] {}", sub, inp.kind, f.detail),
        scenario: sc,
    }
}

/// Shrinks the inputs by dropping program lines / source lines while `test` keeps failing
/// with the same class.
fn minimise_inputs(inp: &Inputs, class: &str, test: &dyn Fn(&Inputs) -> Option<Found>) -> Inputs {
    let mut best = inp.clone();
    let mut budget = 80;
    let mut progress = true;
    while progress && budget > 0 {
        progress = false;
        let lines: Vec<String> = best.text.lines().map(|s| s.to_string()).collect();
        for i in 0..lines.len() {
            if budget == 0 {
                break;
            }
            let t = lines[i].trim();
            if t.is_empty() || t == "{" || t == "}" || t.starts_with('(') || t.starts_with("global") || t.starts_with('[') {
                continue;
            }
            budget -= 1;
            let mut l2 = lines.clone();
            l2.remove(i);
            let mut c = best.clone();
            c.text = l2.join("\n") + "\n";
            if simrun::load(&c.text).is_err() && simrun::load(&best.text).is_ok() {
                continue;
            }
            if let Some(f) = test(&c) {
                if f.class == class {
                    best = c;
                    progress = true;
                    break;
                }
            }
        }
        if progress {
            continue;
        }
        for si in 0..best.sources.len() {
            let lines: Vec<&str> = best.sources[si].lines().collect();
            if lines.len() <= 1 {
                continue;
            }
            for i in 0..lines.len() {
                if budget == 0 {
                    break;
                }
                budget -= 1;
                let mut l2 = lines.clone();
                l2.remove(i);
                let mut c = best.clone();
                c.sources[si] = l2.join("\n") + "\n";
                if let Some(f) = test(&c) {
                    if f.class == class {
                        best = c;
                        progress = true;
                        break;
                    }
                }
            }
            if progress {
                break;
            }
        }
    }
    best
}

/// The scheduler interleaves workers at polls, ticks and task boundaries.  That is the finest
/// useful granularity only while the library keeps no process- or thread-wide mutable state;
/// this scan of /repo/src reports (it never judges) constructs that would end that assumption.
fn shared_state_scan() -> Vec<String> {
    let mut hits = Vec::new();
    fn walk(d: &std::path::Path, out: &mut Vec<std::path::PathBuf>) {
        if let Ok(rd) = std::fs::read_dir(d) {
            for e in rd.flatten() {
                let p = e.path();
                if p.is_dir() {
                    walk(&p, out)
                } else if p.extension().map(|x| x == "rs").unwrap_or(false) {
                    out.push(p)
                }
            }
        }
    }
    let mut files = Vec::new();
    walk(std::path::Path::new("/repo/src"), &mut files);
    files.sort();
    for f in files {
        if let Ok(txt) = std::fs::read_to_string(&f) {
            for (i, line) in txt.lines().enumerate() {
                let t = line.trim_start();
                if t.starts_with("//") {
                    continue;
                }
                let is_static = t.starts_with("static ") || t.starts_with("pub static ") || t.starts_with("pub(crate) static ") || t.contains("static mut ");
                let interior = ["Mutex", "RwLock", "Atomic", "OnceLock", "OnceCell", "LazyLock", "RefCell", "Cell<", "UnsafeCell"].iter().any(|k| t.contains(k));
                if (is_static && interior) || t.contains("thread_local!") || t.contains("lazy_static!") || t.contains("static mut ") {
                    hits.push(format!("{}:{}: {}", f.display(), i + 1, t.chars().take(100).collect::<String>()));
                }
            }
        }
    }
    hits
}

pub fn run_shard(ctx: &ShardCtx, rep: &mut Report) {
    alloc::install();
    install_logger();
    if ctx.shard == 0 {
        let hits = shared_state_scan();
        rep.add("shared_mutable_state_sites_in_repo", hits.len() as u64);
        if !hits.is_empty() {
            rep.notes.push(format!(
                "C12: /repo/src now declares process- or thread-wide mutable state at {} site(s) (first: {}). Interleavings are explored at poll/tick/task granularity and at contended locks; a race that needs pre-emption between two uncontended synchronisation operations inside one library call is outside what this check can reach (DESIGN.md 10.4).",
                hits.len(),
                hits[0]
            ));
        }
    }
    let total: u64 = match ctx.tier {
        Tier::Quick => ctx.scaled(2400) as u64,
        Tier::Thorough => ctx.scaled(120_000) as u64,
    };
    let n_envs = if ctx.tier == Tier::Quick { 5 } else { 10 };
    let mut minimised: std::collections::BTreeSet<String> = Default::default();
    simrun::record_load_history();
    // (sequence number of the recorded load, text, what loading it gave then)
    let mut reservoir: Vec<(u64, String, Result<String, String>)> = Vec::new();
    let mut my_runs = 0u64;
    for i in 0..total {
        if ctx.past_end(i) {
            break;
        }
        if !ctx.mine(i) {
            continue;
        }
        rep.current_run = i;
        let seed = ctx.run_seed(i);
        let mut r = Rng::sub(seed, "plan");
        let sub = match r.below(8) {
            0..=3 => "a",
            4 | 5 => "b",
            _ => "c",
        };
        let inp = make_inputs(seed, ctx.tier, sub != "a" || r.chance(1, 2));
        // (e) remember this text; now and then re-load one that is hundreds of loads old
        my_runs += 1;
        if reservoir.len() < 64 || my_runs % 3 == 0 {
            if let Ok(res) = load_only(&inp.text) {
                let seq = simrun::load_counter();
                if reservoir.len() >= 64 {
                    reservoir.remove(0);
                }
                reservoir.push((seq, inp.text.clone(), res));
            }
        }
        if my_runs % 6 == 0 {
            let now = simrun::load_counter();
            if let Some(pos) = reservoir.iter().position(|(s, _, _)| now - s >= 150 && now - s <= 700) {
                let (seq, text, then) = reservoir.remove(pos);
                if let Ok(again) = load_only(&text) {
                    rep.count("probe.e.old_text_reloaded");
                    rep.add("e.loads_in_between", now - seq);
                    if again != then {
                        if let Some(interim) = simrun::loads_between(seq, now) {
                            // shrink the history of loads while it still reproduces
                            let mut best = interim;
                            loop {
                                let half: Vec<String> = best.iter().step_by(2).cloned().collect();
                                if half.len() < best.len() && matches!(check_e(&text, &half), Ok(Some(_))) {
                                    best = half;
                                } else {
                                    break;
                                }
                            }
                            let f = Found { class: "load-differs-after-history", detail: format!("after {} other loads in the same process, loading the same text again gives a different AST or diagnostic", best.len()) };
                            rep.violation(Violation {
                                class: f.class.to_string(),
                                signature: "load-differs-after-history sub=e".into(),
                                summary: format!("[C12e] {}", f.detail),
                                scenario: json!({"sub": "e", "target": text, "interim": best}),
                            });
                        } else {
                            rep.harness_error("C12e: a re-load differed but the load history no longer covers it".into());
                        }
                    }
                }
            }
        }
        rep.count("runs");
        rep.count(&format!("runs.{}", sub));
        rep.count(&format!("kind.{}", inp.kind));
        match sub {
            "a" => {
                let lazy = r.chance(1, 2) || inp.kind == "multi-fault" && r.chance(2, 3);
                let envs: Vec<Env> = (0..n_envs).map(|_| random_env(&mut r)).collect();
                let res = check_a(&inp, lazy, &envs);
                match res {
                    Err(m) => rep.harness_error(format!("C12a run {}: {}", i, m)),
                    Ok((st, found)) => {
                        rep.evaluations += st.executions;
                        rep.steps += st.executions;
                        rep.add("fault.hash_keys.configured", envs.len() as u64);
                        rep.add("fault.hash_keys.fired", st.hash_classes.saturating_sub(1) as u64);
                        rep.add("fault.layout.configured", envs.len() as u64);
                        rep.add("fault.layout.fired", envs.iter().filter(|e| e.policy != Policy::Compact).count() as u64);
                        rep.add("fault.clock_fast_forward.configured", envs.iter().filter(|e| e.fast_clock).count() as u64);
                        rep.add("fault.clock_fast_forward.fired", CLOCK_READS.swap(0, std::sync::atomic::Ordering::Relaxed));
                        rep.add("fault.stack_depth.configured", envs.iter().filter(|e| e.deep_stack).count() as u64);
                        rep.add("fault.stack_depth.fired", envs.iter().filter(|e| e.deep_stack).count() as u64);
                        rep.add("fault.trace_log.configured", envs.iter().filter(|e| e.trace_log).count() as u64);
                        rep.add("fault.trace_log.fired", envs.iter().filter(|e| e.trace_log).count() as u64);
                        if st.discarded {
                            rep.count("discarded.control_panic");
                            continue;
                        }
                        if st.hash_classes >= 2 {
                            rep.count("probe.a.hash_order_classes_ge2");
                        }
                        if inp.kind == "unused-captures" && st.outcome == "load-error" {
                            rep.count("probe.a.unused_captures_case");
                        }
                        if inp.kind == "multi-fault" && st.outcome == "error" {
                            rep.count("probe.a.multi_fault_case");
                        }
                        if st.outcome == "error" {
                            rep.count("fault.exec_error.configured");
                            rep.count("fault.exec_error.fired");
                        }
                        rep.count(&format!("a.outcome.{}", st.outcome));
                        rep.run_hashes.push((i, st.transcript));
                        if st.statements || st.outcome == "load-error" {
                            rep.distinct("cases", rng::hash_str(&format!("a{}\u{0}{}\u{0}{}", inp.text, inp.sources[0], lazy)));
                        }
                        rep.sample(2, || json!({"sub": "a", "kind": inp.kind, "mode": if lazy {"lazy"} else {"strict"}, "tsg": inp.text, "source": inp.sources[0], "environments": envs.iter().map(|e| e.to_json()).collect::<Vec<_>>(), "outcome": st.outcome}));
                        if let Some((f, env)) = found {
                            rep.count("violating_cases");
                            let v0 = violation("a", &inp, &f, json!({}));
                            if minimised.insert(v0.signature.clone()) {
                                let class = f.class;
                                let env2 = env.clone();
                                let test = move |c: &Inputs| -> Option<Found> {
                                    check_a(c, lazy, std::slice::from_ref(&env2)).ok().and_then(|x| x.1).map(|x| x.0)
                                };
                                let m = minimise_inputs(&inp, class, &test);
                                let f2 = test(&m).unwrap_or(f);
                                rep.violation(violation("a", &m, &f2, json!({"lazy": lazy, "env": env.to_json()})));
                            }
                        }
                    }
                }
            }
            "b" => {
                let mut steps = gen_steps(&mut r, inp.sources.len(), inp.variants.len(), inp.alt_globs.len(), if ctx.tier == Tier::Quick { 8 } else { 12 });
                let mut env = random_env(&mut r);
                if r.chance(1, 2) {
                    env.policy = if r.chance(1, 2) { Policy::Reuse } else { Policy::Coalesce };
                }
                if inp.kind == "syntax-functions" {
                    // what the syntax functions return must not depend on what stood at a node's
                    // address before: execute, let two trees take over each other's memory,
                    // execute again
                    let lazy = r.chance(1, 2);
                    let mut head = vec![
                        Step::Exec { tree: 0, lazy, cancel_at: None, gv: 0 },
                        Step::Exec { tree: 1, lazy, cancel_at: None, gv: 0 },
                        Step::Exchange { a: 0, b: 1 },
                        Step::Exec { tree: 1, lazy, cancel_at: None, gv: 0 },
                        Step::Exec { tree: 0, lazy, cancel_at: None, gv: 0 },
                    ];
                    head.extend(steps);
                    steps = head;
                    env.policy = if r.chance(2, 3) { Policy::Coalesce } else { Policy::Reuse };
                }
                match check_b(&inp, &steps, &env) {
                    Err(m) => rep.harness_error(format!("C12b run {}: {}", i, m)),
                    Ok((st, found)) => {
                        rep.evaluations += st.executions;
                        rep.steps += steps.len() as u64;
                        if st.discarded {
                            rep.count("discarded.b");
                            continue;
                        }
                        rep.add("probe.b.cancelled_step", st.cancelled_steps);
                        rep.add("fault.cancel_at_k.configured", steps.iter().filter(|s| matches!(s, Step::Exec { cancel_at: Some(_), .. })).count() as u64);
                        rep.add("fault.cancel_at_k.fired", st.cancelled_steps);
                        rep.add("probe.b.failed_step_then_success", st.failed_then_ok);
                        rep.add("probe.b.tree_at_recycled_address", st.recycled);
                        rep.add("probe.b.other_file_on_same_thread", st.other_files);
                        rep.add("probe.b.rejected_load_in_history", st.broken_loads);
                        rep.add("b.steps_started_deep_in_the_callers_stack", st.deep_steps);
                        if st.globals_varied {
                            rep.count("probe.b.globals_vary_between_steps");
                        }
                        if env.lifo_heap {
                            rep.count("fault.heap_reuse.configured");
                            let (_, reused) = crate::heap::stats();
                            if reused > 0 {
                                rep.count("fault.heap_reuse.fired");
                            }
                        }
                        rep.run_hashes.push((i, st.transcript));
                        if st.statements {
                            rep.distinct("cases", rng::hash_str(&format!("b{}\u{0}{:?}\u{0}{:?}", inp.text, inp.sources, steps)));
                        }
                        rep.sample(4, || json!({"sub": "b", "kind": inp.kind, "tsg": inp.text, "sources": inp.sources, "history": steps.iter().map(step_json).collect::<Vec<_>>(), "env": env.to_json()}));
                        if let Some(f) = found {
                            rep.count("violating_cases");
                            let v0 = violation("b", &inp, &f, json!({}));
                            if minimised.insert(v0.signature.clone()) {
                                // shrink the history first, then the inputs
                                let mut best = steps.clone();
                                let mut j = 0;
                                while j < best.len() && best.len() > 1 {
                                    let mut s2 = best.clone();
                                    s2.remove(j);
                                    match check_b(&inp, &s2, &env) {
                                        Ok((_, Some(f2))) if f2.class == f.class => best = s2,
                                        _ => j += 1,
                                    }
                                }
                                let class = f.class;
                                let (b2, e2) = (best.clone(), env.clone());
                                let test = move |c: &Inputs| -> Option<Found> { check_b(c, &b2, &e2).ok().and_then(|x| x.1) };
                                let m = minimise_inputs(&inp, class, &test);
                                let f2 = test(&m).unwrap_or(f);
                                rep.violation(violation("b", &m, &f2, json!({"history": best.iter().map(step_json).collect::<Vec<_>>(), "env": env.to_json()})));
                            }
                        }
                    }
                }
            }
            _ => {
                let deep = r.chance(1, 40);
                let inp = if deep { deep_chain_inputs(&mut r) } else { inp };
                let mut plan = gen_plan(&mut r, inp.sources.len(), inp.alt_globs.len());
                if deep {
                    rep.count("probe.c.deep_chain_runs");
                    for t in plan.workers.iter_mut().flatten() {
                        t.lazy = true;
                        t.cancel_at = t.cancel_at.map(|k| k * 97);
                        t.reload = false;
                    }
                }
                let env = random_env(&mut r);
                match check_c(&inp, &plan, &env) {
                    Err(m) => rep.harness_error(format!("C12c run {}: {}", i, m)),
                    Ok((st, found)) => {
                        rep.evaluations += st.executions;
                        rep.steps += st.yield_points;
                        if st.discarded {
                            rep.count("discarded.c");
                            continue;
                        }
                        rep.count("probe.c.multi_worker_runs");
                        let stalls = STALLS.swap(0, std::sync::atomic::Ordering::Relaxed);
                        let run_stalled = stalls > 0;
                        if stalls > 0 {
                            rep.add("c.workers_found_blocked_on_a_library_lock", stalls);
                            if !rep.notes.iter().any(|n| n.starts_with("C12c:")) {
                                rep.notes.push("C12c: a worker that was given the processor never reached a yield point because the library held a lock across a yield point of a parked worker; the scheduler took the processor back (results are still compared, but those interleavings are no longer fully under its control)".into());
                            }
                        }
                        // every lock the library takes is under the simulated futex; a wait happens
                        // only if the library holds a lock across a yield point (never on HEAD)
                        rep.count("fault.lock_wait.configured");
                        rep.add("fault.lock_wait.fired", LOCK_WAITS.swap(0, std::sync::atomic::Ordering::Relaxed));
                        rep.count("fault.sched.configured");
                        if st.switches > 0 {
                            rep.count("fault.sched.fired");
                        }
                        rep.add("probe.c.switch_inside_execution", st.switch_inside);
                        rep.add("probe.c.cancel_other", st.cancel_other);
                        rep.add("fault.cancel_other.configured", st.cancel_other);
                        rep.add("fault.cancel_other.fired", st.cancel_other);
                        rep.add("c.context_switches", st.switches);
                        rep.distinct("interleavings", st.trace);
                        rep.count(&format!("c.strategy.{}", plan.strategy.name().split('(').next().unwrap_or("")));
                        rep.run_hashes.push((i, st.trace));
                        if st.statements {
                            rep.distinct("cases", rng::mix(rng::hash_str(&format!("c{}\u{0}{:?}", inp.text, inp.sources)), st.trace));
                        }
                        rep.sample(6, || json!({"sub": "c", "kind": inp.kind, "tsg": inp.text, "sources": inp.sources, "plan": plan_json(&plan), "yield_points": st.yield_points, "context_switches": st.switches}));
                        if let Some(f) = found {
                            rep.count("violating_cases");
                            let v0 = violation("c", &inp, &f, json!({}));
                            if minimised.insert(v0.signature.clone()) && run_stalled {
                                // the interleaving was not fully controlled: keep the scenario as it is
                                rep.violation(violation("c", &inp, &f, json!({"plan": plan_json(&plan), "env": env.to_json(), "scheduler_stalled": true})));
                            } else if !run_stalled && minimised.contains(&v0.signature) && !rep.has_signature(&v0.signature) {
                                // fewer workers / tasks first
                                let mut best = plan.clone();
                                let mut changed = true;
                                while changed {
                                    changed = false;
                                    for wi in 0..best.workers.len() {
                                        if best.workers.len() > 1 {
                                            let mut p2 = best.clone();
                                            p2.workers.remove(wi);
                                            p2.worker_hash.remove(wi);
                                            if let Strategy::Starve(w) = p2.strategy {
                                                if w >= p2.workers.len() {
                                                    p2.strategy = Strategy::Random;
                                                }
                                            }
                                            if let Ok((_, Some(f2))) = check_c(&inp, &p2, &env) {
                                                if f2.class == f.class {
                                                    best = p2;
                                                    changed = true;
                                                    break;
                                                }
                                            }
                                        }
                                    }
                                }
                                let class = f.class;
                                let (b2, e2) = (best.clone(), env.clone());
                                let test = move |c: &Inputs| -> Option<Found> { check_c(c, &b2, &e2).ok().and_then(|x| x.1) };
                                let m = minimise_inputs(&inp, class, &test);
                                let f2 = test(&m).unwrap_or(f);
                                // minimisation runs may have stalled as well
                                let stalled = run_stalled || STALLS.swap(0, std::sync::atomic::Ordering::Relaxed) > 0;
                                rep.violation(violation("c", &m, &f2, json!({"plan": plan_json(&best), "env": env.to_json(), "scheduler_stalled": stalled})));
                            }
                        }
                    }
                }
            }
        }
    }
}

pub fn replay(sc: &J) -> Result<Option<(String, String)>, String> {
    alloc::install();
    install_logger();
    if sc["sub"].as_str() == Some("e") {
        let interim: Vec<String> = sc["interim"].as_array().map(|a| a.iter().filter_map(|x| x.as_str().map(|s| s.to_string())).collect()).unwrap_or_default();
        let f = check_e(sc["target"].as_str().unwrap_or(""), &interim)?;
        return Ok(f.map(|f| (f.class.to_string(), f.detail)));
    }
    let inp = inputs_from_json(&sc["inputs"]);
    let env = Env::from_json(&sc["env"]);
    let f = match sc["sub"].as_str().unwrap_or("") {
        "a" => check_a(&inp, sc["lazy"].as_bool().unwrap_or(false), &[env])?.1.map(|x| x.0),
        "b" => {
            let steps: Vec<Step> = sc["history"].as_array().map(|a| a.iter().map(step_from_json).collect()).unwrap_or_default();
            check_b(&inp, &steps, &env)?.1
        }
        "c" => {
            // When the library holds a lock across a yield point the scheduler has to take the
            // processor back from a blocked worker (sched.rs) and the interleaving is no longer
            // fully under its control.  Such a scenario is replayed up to 12 times and counts as
            // reproduced if the same divergence from the isolated runs shows up again.  This
            // path is never taken on a tree whose library does not block workers.
            let tries = if sc["scheduler_stalled"].as_bool().unwrap_or(false) { 40 } else { 1 };
            let want = sc["__class"].as_str().map(|s| s.to_string());
            let mut found = None;
            for _ in 0..tries {
                let f = check_c(&inp, &plan_from_json(&sc["plan"]), &env)?.1;
                let hit = match (&f, &want) {
                    (Some(f), Some(w)) => f.class == w,
                    (Some(_), None) => true,
                    _ => false,
                };
                if f.is_some() && found.is_none() {
                    found = f;
                    if hit {
                        break;
                    }
                } else if hit {
                    found = f;
                    break;
                }
            }
            found
        }
        other => return Err(format!("unknown sub-check {}", other)),
    };
    Ok(f.map(|f| (f.class.to_string(), f.detail)))
}
