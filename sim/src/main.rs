mod alloc;
mod c04;
mod c08;
mod c09;
mod c11;
mod c12;
mod c19;
mod sched;
mod canon;
mod engine;
mod entropy;
mod gen;
mod heap;
mod pysrc;
mod rng;
mod simrun;

use std::collections::BTreeMap;

#[global_allocator]
static GLOBAL: heap::SimHeap = heap::SimHeap;

fn main() {
    let args: Vec<String> = std::env::args().collect();
    let cmd = args.get(1).map(|s| s.as_str()).unwrap_or("");
    match cmd {
        "gen-stats" => gen_stats(&args[2..]),
        "probe-missing" => {
            for s in ["def zf():\n    x = a.\n", "x = a.\n", "def zg():\nx = 1\n", "if x:\ny = 1\n", "class K:\nx = 2\n", "for i in y:\nz = 1\n", "def f(:\n    pass\n", "class K(:\n    pass\n", "x = (1\n", "f(1\n", "x = [1, 2\n", "x = {1: 2\n", "print(a\ny = 2\n", "def g(a, b:\n    return a\n", "x = 1 +\n", "if x\n    pass\n", "for i in y\n    pass\n", "while x\n    pass\n", "def h()\n    pass\n", "lambda x 1\n", "x = a if b\n", "with open(f) as g\n    pass\n", "try\n    pass\nexcept:\n    pass\n", "class K\n    pass\n", "x[1\n", "f(a, b\n"] {
                let tree = simrun::parse_python(s);
                let mut missing = 0; let mut error = 0;
                let mut c = tree.walk(); let mut done = false;
                while !done {
                    let n = c.node();
                    if n.is_missing() { missing += 1; }
                    if n.start_byte() == n.end_byte() && !n.is_missing() { print!("[zero-width {}] ", n.kind()); }
                    if n.is_error() { error += 1; }
                    if c.goto_first_child() { continue; }
                    loop { if c.goto_next_sibling() { break; } if !c.goto_parent() { done = true; break; } }
                }
                println!("{:?}: has_error={} ERROR={} MISSING={}", s, tree.root_node().has_error(), error, missing);
            }
        }
        "setup" => std::process::exit(setup()),
        "selftest-determinism" => std::process::exit(selftest_determinism(args.get(2).map(|s| s.as_str()).unwrap_or("quick"))),
        "check" => {
            let prop = args.get(2).cloned().unwrap_or_default();
            let tier = args
                .get(3)
                .and_then(|s| engine::Tier::parse(s))
                .or_else(|| std::env::var("VERIF_TIER").ok().and_then(|s| engine::Tier::parse(&s)))
                .unwrap_or(engine::Tier::Quick);
            let meta = match meta_of(&prop) {
                Some(m) => m,
                None => {
                    eprintln!("unknown property {}", prop);
                    std::process::exit(2);
                }
            };
            std::process::exit(engine::run_check(&meta, tier));
        }
        "shard" => {
            simrun::install_quiet_panic_hook();
            let ctx = engine::ShardCtx {
                prop: args[2].clone(),
                tier: engine::Tier::parse(&args[3]).expect("tier"),
                seed: args[4].parse().expect("seed"),
                shard: args[5].parse().expect("shard"),
                shards: args[6].parse().expect("shards"),
                scale: args[7].parse().expect("scale"),
                upto: None,
            };
            let mut rep = engine::Report::default();
            if !run_shard(&ctx, &mut rep) {
                eprintln!("unknown property");
                std::process::exit(2);
            }
            engine::write_shard_report(&ctx, &rep);
        }
        "replay-prefix" => {
            simrun::install_quiet_panic_hook();
            let path = args.get(2).cloned().unwrap_or_default();
            let j = match engine::read_json(&path) {
                Ok(j) => j,
                Err(e) => {
                    eprintln!("{}", e);
                    std::process::exit(2);
                }
            };
            let prop = j["property"].as_str().unwrap_or("").to_string();
            let p = &j["prefix"];
            let ctx = engine::ShardCtx {
                prop: prop.clone(),
                tier: engine::Tier::parse(p["tier"].as_str().unwrap_or("quick")).unwrap_or(engine::Tier::Quick),
                seed: p["seed"].as_u64().unwrap_or(1),
                shard: p["shard"].as_u64().unwrap_or(0) as usize,
                shards: p["shards"].as_u64().unwrap_or(1) as usize,
                scale: p["scale"].as_u64().unwrap_or(100) as usize,
                upto: p["run"].as_u64(),
            };
            let want = j["class"].as_str().unwrap_or("").to_string();
            let mut rep = engine::Report::default();
            run_shard(&ctx, &mut rep);
            let hit = rep.violations.iter().zip(rep.violation_runs.iter()).find(|(v, run)| v.class == want && Some(**run) == ctx.upto);
            match hit {
                Some((v, _)) => {
                    println!("REPRODUCED property={} class={}", prop, v.class);
                    println!("  {} [by re-running worker {}/{} of seed {} up to run {}]", v.summary, ctx.shard, ctx.shards, ctx.seed, ctx.upto.unwrap_or(0));
                    println!("VIOLATION property={} replay={}", prop, path);
                    std::process::exit(1);
                }
                None => {
                    println!("NOT-REPRODUCED property={} (neither the scenario nor the worker's history up to run {} reproduces it)", prop, ctx.upto.unwrap_or(0));
                    std::process::exit(0);
                }
            }
        }
        "replay" => {
            simrun::install_quiet_panic_hook();
            let path = args.get(2).cloned().unwrap_or_default();
            let j = match engine::read_json(&path) {
                Ok(j) => j,
                Err(e) => {
                    eprintln!("{}", e);
                    std::process::exit(2);
                }
            };
            let prop = j["property"].as_str().unwrap_or("").to_string();
            // the class to look for is handed to the check inside the scenario
            let mut j = j;
            let class = j["class"].clone();
            if let Some(o) = j["scenario"].as_object_mut() {
                o.insert("__class".into(), class);
            }
            let r = match prop.as_str() {
                "C11" => c11::replay(&j["scenario"]),
                "C04" => c04::replay(&j["scenario"]),
                "C12" => c12::replay(&j["scenario"]),
                "C09" => c09::replay(&j["scenario"]),
                "C08" => c08::replay(&j["scenario"]),
                "C19" => c19::replay(&j["scenario"]),
                _ => Err(format!("unknown property {}", prop)),
            };
            // second chance: the failure may depend on the earlier history of the worker process.
            // That is replayed in a FRESH process (this one has already loaded and executed
            // things, which such a failure would notice).
            if let (Ok(None), true) = (&r, j["prefix"]["run"].is_u64()) {
                let exe = std::env::current_exe().expect("exe");
                let st = std::process::Command::new(exe).arg("replay-prefix").arg(&path).status();
                std::process::exit(st.ok().and_then(|s| s.code()).unwrap_or(2));
            }
            match r {
                Ok(Some((class, detail))) => {
                    println!("REPRODUCED property={} class={}", prop, class);
                    println!("  {}", detail);
                    println!("VIOLATION property={} replay={}", prop, path);
                    std::process::exit(1);
                }
                Ok(None) => {
                    println!("NOT-REPRODUCED property={} (the scenario passes on this tree)", prop);
                    std::process::exit(0);
                }
                Err(e) => {
                    println!("HARNESS-ERROR replay failed: {}", e);
                    std::process::exit(2);
                }
            }
        }
        _ => {
            eprintln!("usage: tsgsim <command>");
            std::process::exit(2);
        }
    }
}

const PROPS: &[&str] = &["C04", "C08", "C09", "C11", "C12", "C19"];

/// Acceptance tests of the seams themselves, run at set-up.
fn setup() -> i32 {
    simrun::install_quiet_panic_hook();
    let mut bad = 0;
    // 1. every query shape of the generator pool compiles against the grammar
    for s in gen::SHAPES {
        let text = format!("{}\n{{\n}}\n", s.text.replace(" @", " @_"));
        if let Err(e) = simrun::load(&text) {
            println!("HARNESS-ERROR query shape rejected: {} ({})", s.text, e);
            bad += 1;
        }
    }
    // 2. the entropy seam decides hash iteration order
    let order = |seed: u64| entropy::with_hash_seed(seed, entropy::hash_order_probe).unwrap();
    let a1 = order(11);
    let a2 = order(11);
    let distinct: std::collections::BTreeSet<String> = (1..40u64).map(order).collect();
    if a1 != a2 || distinct.len() < 5 {
        println!("HARNESS-ERROR getrandom interposition ineffective: same-seed equal={} distinct orders={}", a1 == a2, distinct.len());
        bad += 1;
    }
    // 3. the allocator seam places syntax trees where the policy says
    alloc::install();
    for p in alloc::Policy::ALL {
        alloc::begin_run(p, 7);
        let tree = simrun::parse_python("x = f(1, 2)\ny = g(x)\nz = h(x, y)\n");
        let id = tree.root_node().id();
        if id < 0x2000_0000_0000 {
            println!("HARNESS-ERROR tree not allocated in a simulated arena under {}", p.name());
            bad += 1;
        }
        drop(tree);
    }
    alloc::begin_run(alloc::Policy::Split4G, 7);
    let src = pysrc::gen_source(&mut rng::Rng::new(5), &pysrc::SrcCfg { min_stmts: 30, max_stmts: 30, ..Default::default() });
    let tree = simrun::parse_python(&src);
    let (n, c) = alloc::id_collisions(&tree);
    if c == 0 {
        println!("HARNESS-ERROR split-4G layout produced no low-32-bit id collision among {} nodes", n);
        bad += 1;
    }
    drop(tree);
    // 4. the futex seam: a lock that a parked worker holds is a scheduled wait, not a stall,
    //    and the whole run is a function of the seed
    let locked = |seed: u64| {
        let sched = sched::Sched::new(3, seed, sched::Strategy::Random, 200);
        let m = std::sync::Mutex::new(Vec::new());
        std::thread::scope(|sc| {
            for wi in 0..3usize {
                let (sched, m) = (&sched, &m);
                sc.spawn(move || {
                    sched.start(wi);
                    for k in 0..20 {
                        let mut g = m.lock().unwrap();
                        sched.yield_point(wi, "holding the lock");
                        g.push((wi, k));
                        drop(g);
                        sched.yield_point(wi, "lock released");
                    }
                    sched.finish(wi);
                });
            }
        });
        (m.into_inner().unwrap(), sched.summary().0, sched.futex_stats(), sched.stalls())
    };
    let (l1, l2, l3) = (locked(5), locked(5), locked(6));
    if l1 != l2 || l1.0.len() != 60 || (l1.2).0 == 0 || l1.3 != 0 || l1.0 == l3.0 {
        println!(
            "HARNESS-ERROR futex seam: same seed equal={} pushes={} simulated waits={} stalls={} other seed differs={}",
            l1 == l2, l1.0.len(), (l1.2).0, l1.3, l1.0 != l3.0
        );
        bad += 1;
    }
    let futex_waits = (l1.2).0;
    // 5. the clock seam: on a thread in fast-forward mode Rust's Instant and tree-sitter's C
    //    code both see the simulated clock (a parse with a 1 s budget runs out of time)
    let clock = |fast: bool| {
        entropy::with_hash_seed(3, move || {
            entropy::set_thread_clock_fast(if fast { Some(77) } else { None });
            let t0 = std::time::Instant::now();
            let t1 = std::time::Instant::now();
            let src: String = (0..4000).map(|i| format!("v{} = f{}(a, b, c)\n", i, i)).collect();
            let mut parser = tree_sitter::Parser::new();
            parser.set_language(&tree_sitter_python::LANGUAGE.into()).unwrap();
            #[allow(deprecated)]
            parser.set_timeout_micros(1_000_000);
            let parsed = parser.parse(&src, None).is_some();
            let reads = entropy::thread_clock_reads();
            entropy::set_thread_clock_fast(None);
            (t1.duration_since(t0).as_millis(), parsed, reads)
        })
        .unwrap()
    };
    let (real, fast) = (clock(false), clock(true));
    if real.0 > 500 || !real.1 || real.2 != 0 || fast.0 == 0 || fast.1 || fast.2 < 3 {
        println!("HARNESS-ERROR clock seam: real clock (elapsed ms, parsed, simulated reads) = {:?}, fast-forward = {:?}", real, fast);
        bad += 1;
    }
    let clock_reads = fast.2;
    if bad == 0 {
        println!("setup: futex seam verified ({} simulated waits, {} wake-ups, 0 stalls)", futex_waits, (l1.2).1);
        println!("setup: clock seam verified (fast-forward: {} clock reads served, a parse with a 1 s budget timed out; real clock: it completed)", clock_reads);
        println!("setup: seams verified ({} query shapes, {} hash orders, 6 layout policies, {} id collisions among {} nodes under split-4G)", gen::SHAPES.len(), distinct.len(), c, n);
        0
    } else {
        2
    }
}

/// Same seeds, different processes and shard counts: complete transcripts must be equal.
fn selftest_determinism(tier: &str) -> i32 {
    let exe = std::env::current_exe().expect("exe");
    let scale = if tier == "thorough" { "100" } else { "12" };
    let mut bad = 0;
    for p in PROPS {
        let mut seen: Vec<(String, String)> = Vec::new();
        for (shards, seed) in [("1", "1"), ("4", "1"), ("16", "1"), ("7", "1"), ("16", "2"), ("3", "2")] {
            let out = std::process::Command::new(&exe)
                .args(["check", p, "quick"])
                .env("VERIF_SHARDS", shards)
                .env("VERIF_SEED", seed)
                .env("VERIF_SCALE", scale)
                .env("VERIF_NO_EVIDENCE", "1")
                .output()
                .expect("spawn");
            let so = String::from_utf8_lossy(&out.stdout).to_string();
            let tr = so
                .lines()
                .filter_map(|l| l.split("transcript=").nth(1))
                .filter_map(|r| r.split_whitespace().next())
                .last()
                .unwrap_or("?")
                .to_string();
            if out.status.code() != Some(0) {
                println!("HARNESS-ERROR {} exited {:?} under shards={} seed={}", p, out.status.code(), shards, seed);
                bad += 1;
            }
            seen.push((seed.to_string(), tr));
        }
        for seed in ["1", "2"] {
            let ts: std::collections::BTreeSet<&String> = seen.iter().filter(|s| s.0 == seed).map(|s| &s.1).collect();
            if ts.len() != 1 || ts.iter().any(|t| t.as_str() == "?") {
                println!("HARNESS-ERROR {} seed {}: transcripts differ across processes/shard counts: {:?}", p, seed, ts);
                bad += 1;
            } else {
                println!("determinism {} seed={} transcript={} (1/4/16/7 or 16/3 shard processes)", p, seed, ts.iter().next().unwrap());
            }
        }
        let t1: Vec<&String> = seen.iter().filter(|s| s.0 == "1").map(|s| &s.1).collect();
        let t2: Vec<&String> = seen.iter().filter(|s| s.0 == "2").map(|s| &s.1).collect();
        if t1[0] == t2[0] {
            println!("HARNESS-ERROR {}: different seeds give the same transcript (seed ignored?)", p);
            bad += 1;
        }
    }
    if bad == 0 {
        0
    } else {
        2
    }
}

fn run_shard(ctx: &engine::ShardCtx, rep: &mut engine::Report) -> bool {
    match ctx.prop.as_str() {
        "C11" => c11::run_shard(ctx, rep),
        "C04" => c04::run_shard(ctx, rep),
        "C12" => c12::run_shard(ctx, rep),
        "C09" => c09::run_shard(ctx, rep),
        "C08" => c08::run_shard(ctx, rep),
        "C19" => c19::run_shard(ctx, rep),
        _ => return false,
    }
    true
}

fn meta_of(prop: &str) -> Option<engine::CheckMeta> {
    match prop {
        "C11" => Some(c11::meta()),
        "C04" => Some(c04::meta()),
        "C12" => Some(c12::meta()),
        "C09" => Some(c09::meta()),
        "C08" => Some(c08::meta()),
        "C19" => Some(c19::meta()),
        _ => None,
    }
}

fn gen_stats(args: &[String]) {
    let n: usize = args.get(0).and_then(|s| s.parse().ok()).unwrap_or(200);
    let show: usize = args.get(1).and_then(|s| s.parse().ok()).unwrap_or(0);
    simrun::install_quiet_panic_hook();
    let mut tally: BTreeMap<String, usize> = BTreeMap::new();
    let mut msgs: BTreeMap<String, usize> = BTreeMap::new();
    for i in 0..n {
        let seed = rng::mix(1, i as u64);
        let mut r = rng::Rng::sub(seed, "prog");
        let cfg = gen::GenCfg { ticks: true, ..Default::default() };
        let g = gen::gen_program(&mut r, &cfg);
        let text = g.prog.render();
        let mut rs = rng::Rng::sub(seed, "src");
        let src = pysrc::gen_source(&mut rs, &pysrc::SrcCfg::default());
        let globs = gen::supply_globals(&mut rng::Rng::sub(seed, "globals"), &g.needed_globals);
        if i < show {
            println!("=== {} ===\n{}\n--- src ---\n{}", i, text, src);
        }
        for lazy in [false, true] {
            let key;
            match simrun::run_text(&text, &src, lazy, &globs) {
                Err(e) => {
                    key = format!("load-error");
                    *msgs.entry(e.chars().take(60).collect()).or_default() += 1;
                }
                Ok(o) => {
                    key = format!("{}-{}", if lazy { "lazy" } else { "strict" }, o.class());
                    if let canon::Outcome::Error(e) = &o {
                        *msgs.entry(format!("{} {}", if lazy {"L"} else {"S"}, e.variant)).or_default() += 1;
                        if i < show { println!("  -> {}", e.display); }
                    }
                    if let canon::Outcome::Panic(m) = &o {
                        *msgs.entry(format!("PANIC {}", m.chars().take(80).collect::<String>())).or_default() += 1;
                    }
                    if i < show { println!("  => {}", o.brief().chars().take(200).collect::<String>()); }
                }
            }
            *tally.entry(key).or_default() += 1;
        }
    }
    println!("{:#?}", tally);
    println!("{:#?}", msgs);
}
