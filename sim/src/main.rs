mod alloc;
mod c04;
mod c09;
mod c11;
mod c12;
mod sched;
mod canon;
mod engine;
mod entropy;
mod gen;
mod pysrc;
mod rng;
mod simrun;

use std::collections::BTreeMap;

fn main() {
    let args: Vec<String> = std::env::args().collect();
    let cmd = args.get(1).map(|s| s.as_str()).unwrap_or("");
    match cmd {
        "gen-stats" => gen_stats(&args[2..]),
        "check" => {
            let prop = args.get(2).cloned().unwrap_or_default();
            let tier = args
                .get(3)
                .and_then(|s| engine::Tier::parse(s))
                .or_else(|| std::env::var("VERIF_TIER").ok().and_then(|s| engine::Tier::parse(&s)))
                .unwrap_or(engine::Tier::Quick);
            let meta = match meta_of(&prop) {
                Some(m) => m,
                None => {
                    eprintln!("unknown property {}", prop);
                    std::process::exit(2);
                }
            };
            std::process::exit(engine::run_check(&meta, tier));
        }
        "shard" => {
            simrun::install_quiet_panic_hook();
            let ctx = engine::ShardCtx {
                prop: args[2].clone(),
                tier: engine::Tier::parse(&args[3]).expect("tier"),
                seed: args[4].parse().expect("seed"),
                shard: args[5].parse().expect("shard"),
                shards: args[6].parse().expect("shards"),
                scale: args[7].parse().expect("scale"),
            };
            let mut rep = engine::Report::default();
            match ctx.prop.as_str() {
                "C11" => c11::run_shard(&ctx, &mut rep),
                "C04" => c04::run_shard(&ctx, &mut rep),
                "C12" => c12::run_shard(&ctx, &mut rep),
                "C09" => c09::run_shard(&ctx, &mut rep),
                _ => {
                    eprintln!("unknown property");
                    std::process::exit(2);
                }
            }
            engine::write_shard_report(&ctx, &rep);
        }
        "replay" => {
            simrun::install_quiet_panic_hook();
            let path = args.get(2).cloned().unwrap_or_default();
            let j = match engine::read_json(&path) {
                Ok(j) => j,
                Err(e) => {
                    eprintln!("{}", e);
                    std::process::exit(2);
                }
            };
            let prop = j["property"].as_str().unwrap_or("").to_string();
            let r = match prop.as_str() {
                "C11" => c11::replay(&j["scenario"]),
                "C04" => c04::replay(&j["scenario"]),
                "C12" => c12::replay(&j["scenario"]),
                "C09" => c09::replay(&j["scenario"]),
                _ => Err(format!("unknown property {}", prop)),
            };
            match r {
                Ok(Some((class, detail))) => {
                    println!("REPRODUCED property={} class={}", prop, class);
                    println!("  {}", detail);
                    println!("VIOLATION property={} replay={}", prop, path);
                    std::process::exit(1);
                }
                Ok(None) => {
                    println!("NOT-REPRODUCED property={} (the scenario passes on this tree)", prop);
                    std::process::exit(0);
                }
                Err(e) => {
                    println!("HARNESS-ERROR replay failed: {}", e);
                    std::process::exit(2);
                }
            }
        }
        _ => {
            eprintln!("usage: tsgsim <command>");
            std::process::exit(2);
        }
    }
}

fn meta_of(prop: &str) -> Option<engine::CheckMeta> {
    match prop {
        "C11" => Some(c11::meta()),
        "C04" => Some(c04::meta()),
        "C12" => Some(c12::meta()),
        "C09" => Some(c09::meta()),
        _ => None,
    }
}

fn gen_stats(args: &[String]) {
    let n: usize = args.get(0).and_then(|s| s.parse().ok()).unwrap_or(200);
    let show: usize = args.get(1).and_then(|s| s.parse().ok()).unwrap_or(0);
    simrun::install_quiet_panic_hook();
    let mut tally: BTreeMap<String, usize> = BTreeMap::new();
    let mut msgs: BTreeMap<String, usize> = BTreeMap::new();
    for i in 0..n {
        let seed = rng::mix(1, i as u64);
        let mut r = rng::Rng::sub(seed, "prog");
        let cfg = gen::GenCfg { ticks: true, ..Default::default() };
        let g = gen::gen_program(&mut r, &cfg);
        let text = g.prog.render();
        let mut rs = rng::Rng::sub(seed, "src");
        let src = pysrc::gen_source(&mut rs, &pysrc::SrcCfg::default());
        let globs = gen::supply_globals(&mut rng::Rng::sub(seed, "globals"), &g.needed_globals);
        if i < show {
            println!("=== {} ===\n{}\n--- src ---\n{}", i, text, src);
        }
        for lazy in [false, true] {
            let key;
            match simrun::run_text(&text, &src, lazy, &globs) {
                Err(e) => {
                    key = format!("load-error");
                    *msgs.entry(e.chars().take(60).collect()).or_default() += 1;
                }
                Ok(o) => {
                    key = format!("{}-{}", if lazy { "lazy" } else { "strict" }, o.class());
                    if let canon::Outcome::Error(e) = &o {
                        *msgs.entry(format!("{} {}", if lazy {"L"} else {"S"}, e.variant)).or_default() += 1;
                        if i < show { println!("  -> {}", e.display); }
                    }
                    if let canon::Outcome::Panic(m) = &o {
                        *msgs.entry(format!("PANIC {}", m.chars().take(80).collect::<String>())).or_default() += 1;
                    }
                    if i < show { println!("  => {}", o.brief().chars().take(200).collect::<String>()); }
                }
            }
            *tally.entry(key).or_default() += 1;
        }
    }
    println!("{:#?}", tally);
    println!("{:#?}", msgs);
}
