//! Seam S4: a cooperative, seeded scheduler for several caller threads sharing one loaded
//! file.  Workers are real OS threads, but exactly one is released at a time; a worker parks
//! at every yield point (cancellation poll, `tick`, `yield`, task boundary) and the scheduler
//! decides who runs next.  The recorded trace of (worker, label) grants is the schedule;
//! because no two workers ever run concurrently it replays exactly.
//!
//! Seam S8 (simulated futex): Rust's `Mutex`, `RwLock`, `Condvar`, `Once` and thread parking
//! block through `syscall(SYS_futex, ..)`.  The harness binary defines `syscall` (entropy.rs)
//! and hands the futex calls of scheduled workers to `futex_hook` below: a worker that would
//! block in the kernel (the lock is held by a parked worker — the library kept a lock across
//! a yield point) is parked by the scheduler instead, and the release of a contended lock is a
//! scheduling point.  Contended locks inside the library are therefore part of the seeded
//! schedule and replay exactly.  Anything the simulation cannot serve (all workers waiting,
//! a blocking primitive that is not futex based) falls back to the real-time watchdog.

use std::sync::Condvar;
use std::sync::Mutex;

use crate::rng::Rng;

#[derive(Clone, Copy, Debug, PartialEq, Eq)]
pub enum Strategy {
    /// uniform choice among runnable workers with random quanta 1..=8
    Random,
    /// fixed quantum, workers in ring order
    RoundRobin(u32),
    /// each worker runs to completion in a seeded order
    RunToCompletion,
    /// PCT-style: seeded priorities, lowered at `d` seeded change points
    Pct(u32),
    /// one worker only runs when no other can (it is stalled mid-statement for long periods)
    Starve(usize),
}

impl Strategy {
    pub fn name(&self) -> String {
        match self {
            Strategy::Random => "random".into(),
            Strategy::RoundRobin(q) => format!("round-robin({})", q),
            Strategy::RunToCompletion => "run-to-completion".into(),
            Strategy::Pct(d) => format!("pct({})", d),
            Strategy::Starve(w) => format!("starve({})", w),
        }
    }
    pub fn parse(s: &str) -> Strategy {
        let num = |s: &str| -> u32 {
            s.chars()
                .filter(|c| c.is_ascii_digit())
                .collect::<String>()
                .parse()
                .unwrap_or(1)
        };
        if s.starts_with("round-robin") {
            Strategy::RoundRobin(num(s))
        } else if s.starts_with("run-to") {
            Strategy::RunToCompletion
        } else if s.starts_with("pct") {
            Strategy::Pct(num(s))
        } else if s.starts_with("starve") {
            Strategy::Starve(num(s) as usize)
        } else {
            Strategy::Random
        }
    }
}

thread_local! {
    /// the scheduler and worker index of the current thread, while it is a scheduled worker
    static CUR: std::cell::Cell<(*const Sched, usize)> = const { std::cell::Cell::new((std::ptr::null(), 0)) };
    /// > 0 while the thread is inside the scheduler itself (its own lock and condvar are real)
    static IN_SCHED: std::cell::Cell<u32> = const { std::cell::Cell::new(0) };
}

struct Inside;
impl Inside {
    fn enter() -> Inside {
        IN_SCHED.with(|c| c.set(c.get() + 1));
        Inside
    }
}
impl Drop for Inside {
    fn drop(&mut self) {
        IN_SCHED.with(|c| c.set(c.get() - 1));
    }
}

const FUTEX_WAIT: i32 = 0;
const FUTEX_WAKE: i32 = 1;
const FUTEX_WAIT_BITSET: i32 = 9;
const FUTEX_WAKE_BITSET: i32 = 10;
const FUTEX_CMD_MASK: i32 = !(128 | 256);

/// Called by the interposed `syscall` for SYS_futex.  `None`: not ours, do the real call.
/// `Some(r)`: the result in kernel convention (negative errno on failure).
pub fn futex_hook(addr: usize, op: i32, val: u32, timeout: usize) -> Option<i64> {
    let (sp, me) = CUR.try_with(|c| c.get()).ok()?;
    if sp.is_null() || IN_SCHED.try_with(|c| c.get()).unwrap_or(1) > 0 {
        return None;
    }
    // SAFETY: CUR is set by `start` and cleared by `finish`, which the worker calls before the
    // scheduler goes out of scope
    let sched = unsafe { &*sp };
    match op & FUTEX_CMD_MASK {
        FUTEX_WAIT | FUTEX_WAIT_BITSET => sched.futex_wait(me, addr, val, timeout != 0),
        FUTEX_WAKE | FUTEX_WAKE_BITSET => sched.futex_wake(me, addr, val),
        _ => None,
    }
}

const NOBODY: usize = usize::MAX;
/// Real time after which a worker that was handed the processor without reaching any yield
/// point is taken to be blocked (on a lock that a parked worker holds).
const STALL_MS: u64 = 250;
/// After this many stalls in one run the scheduler gives up control: all workers run freely.
const MAX_STALLS: u64 = 3;

struct State {
    current: usize,
    /// workers that were handed the processor but turned out to be blocked; they become
    /// runnable again when they arrive at their next yield point
    blocked: Vec<bool>,
    /// simulated futex: the address a worker waits on, whether it has been woken, and whether
    /// the wait has a timeout (then the scheduler may also let it time out)
    waiting: Vec<Option<usize>>,
    woken: Vec<bool>,
    timed: Vec<bool>,
    futex_waits: u64,
    futex_wakes: u64,
    /// incremented whenever any worker arrives at a yield point or finishes
    progress: u64,
    stalls: u64,
    /// the scheduler has given up control for this run (see MAX_STALLS)
    free_run: bool,
    quantum: u32,
    finished: Vec<bool>,
    rng: Rng,
    strategy: Strategy,
    priorities: Vec<u64>,
    change_points: Vec<u64>,
    step: u64,
    switches: u64,
    trace_hash: u64,
    trace_len: u64,
    max_steps: u64,
    overrun: bool,
    switched_in_label: Vec<(String, u64)>,
}

pub struct Sched {
    st: Mutex<State>,
    cv: Condvar,
    n: usize,
}

impl Sched {
    pub fn new(n: usize, seed: u64, strategy: Strategy, est_steps: u64) -> Sched {
        let mut rng = Rng::new(seed);
        let mut priorities: Vec<u64> = (0..n as u64).map(|i| 1000 + i).collect();
        rng.shuffle(&mut priorities);
        let mut change_points = Vec::new();
        if let Strategy::Pct(d) = strategy {
            for _ in 0..d {
                change_points.push(rng.below(est_steps.max(2) as usize) as u64);
            }
            change_points.sort();
        }
        let first = match strategy {
            Strategy::Starve(w) => (0..n).find(|i| *i != w).unwrap_or(0),
            Strategy::Pct(_) => (0..n).max_by_key(|i| priorities[*i]).unwrap_or(0),
            _ => rng.below(n),
        };
        Sched {
            st: Mutex::new(State {
                current: first,
                blocked: vec![false; n],
                waiting: vec![None; n],
                woken: vec![false; n],
                timed: vec![false; n],
                futex_waits: 0,
                futex_wakes: 0,
                progress: 0,
                stalls: 0,
                free_run: false,
                quantum: 0,
                finished: vec![false; n],
                rng,
                strategy,
                priorities,
                change_points,
                step: 0,
                switches: 0,
                trace_hash: 0,
                trace_len: 0,
                max_steps: 2_000_000,
                overrun: false,
                switched_in_label: Vec::new(),
            }),
            cv: Condvar::new(),
            n,
        }
    }

    fn pick_next(s: &mut State, n: usize, me: usize, me_runnable: bool) -> Option<usize> {
        let runnable: Vec<usize> = (0..n)
            .filter(|i| !s.finished[*i] && !s.blocked[*i] && (*i != me || me_runnable))
            .filter(|i| s.waiting[*i].is_none() || s.woken[*i] || s.timed[*i])
            .collect();
        if runnable.is_empty() {
            return None;
        }
        Some(match s.strategy {
            Strategy::Random => {
                s.quantum = 1 + s.rng.below(8) as u32;
                runnable[s.rng.below(runnable.len())]
            }
            Strategy::RoundRobin(q) => {
                s.quantum = q.max(1);
                *runnable.iter().find(|i| **i > me).unwrap_or(&runnable[0])
            }
            Strategy::RunToCompletion => {
                s.quantum = u32::MAX;
                if me_runnable {
                    me
                } else {
                    runnable[s.rng.below(runnable.len())]
                }
            }
            Strategy::Pct(_) => {
                s.quantum = 1;
                while s.change_points.first().map(|c| *c <= s.step).unwrap_or(false) {
                    s.change_points.remove(0);
                    // demote the currently highest-priority runnable worker
                    if let Some(top) = runnable.iter().max_by_key(|i| s.priorities[**i]).cloned() {
                        s.priorities[top] = s.step.min(999);
                    }
                }
                *runnable.iter().max_by_key(|i| s.priorities[**i]).unwrap()
            }
            Strategy::Starve(w) => {
                s.quantum = 1 + s.rng.below(4) as u32;
                let others: Vec<usize> = runnable.iter().cloned().filter(|i| *i != w).collect();
                if others.is_empty() {
                    w
                } else if s.rng.chance(1, 50) && runnable.contains(&w) {
                    // let the starved worker make one step now and then, so it is stalled
                    // in the middle of its work rather than before it
                    s.quantum = 1;
                    w
                } else {
                    others[s.rng.below(others.len())]
                }
            }
        })
    }

    /// Waits until it is `me`'s turn.  If the worker that currently has the processor makes no
    /// progress for STALL_MS of real time (it never reaches a yield point: it is blocked, most
    /// likely on a lock that a parked worker — possibly `me` — holds because the library kept a
    /// lock across a yield point), that worker is marked blocked and `me` takes the processor,
    /// so that everybody can finish.  A blocked worker queues up again at its next yield point.
    /// After MAX_STALLS such events the scheduler lets all workers run freely.
    fn wait_for_turn<'a>(&'a self, mut s: std::sync::MutexGuard<'a, State>, me: usize) -> std::sync::MutexGuard<'a, State> {
        let mut seen = s.progress;
        while s.current != me && !s.free_run {
            if s.current == NOBODY {
                s.current = me;
                break;
            }
            let (g, t) = self
                .cv
                .wait_timeout(s, std::time::Duration::from_millis(STALL_MS))
                .unwrap();
            s = g;
            if s.current == me || s.free_run {
                break;
            }
            if t.timed_out() {
                if s.progress == seen && s.current != NOBODY && !s.finished[s.current] {
                    let b = s.current;
                    s.blocked[b] = true;
                    s.stalls += 1;
                    if s.stalls >= MAX_STALLS {
                        s.free_run = true;
                    }
                    s.current = me;
                    self.cv.notify_all();
                    break;
                }
                seen = s.progress;
            }
        }
        s
    }

    /// Blocks until worker `me` is scheduled for the first time.
    pub fn start(&self, me: usize) {
        let _in = Inside::enter();
        CUR.with(|c| c.set((self as *const Sched, me)));
        let s = self.st.lock().unwrap();
        let _s = self.wait_for_turn(s, me);
    }

    /// A yield point reached by worker `me`.
    pub fn yield_point(&self, me: usize, label: &str) {
        let _in = Inside::enter();
        let mut s = self.st.lock().unwrap();
        s.progress += 1;
        if s.free_run {
            return;
        }
        if s.current != me {
            // a worker that had been found blocked has got going again: it queues up
            s.blocked[me] = false;
            self.cv.notify_all();
            s = self.wait_for_turn(s, me);
            if s.free_run {
                return;
            }
        }
        s.step += 1;
        s.trace_len += 1;
        s.trace_hash = crate::rng::mix(
            s.trace_hash,
            crate::rng::mix(me as u64, crate::rng::hash_str(label)),
        );
        if s.step > s.max_steps {
            s.overrun = true;
        }
        if s.quantum > 1 {
            s.quantum -= 1;
            return;
        }
        let next = Self::pick_next(&mut s, self.n, me, true).unwrap_or(me);
        if next != me {
            s.switches += 1;
            if s.switched_in_label.len() < 64 {
                let st = s.step;
                s.switched_in_label.push((label.to_string(), st));
            }
            s.current = next;
            self.cv.notify_all();
            let _s = self.wait_for_turn(s, me);
        }
    }

    /// Worker `me` has finished all its tasks.
    pub fn finish(&self, me: usize) {
        let _in = Inside::enter();
        CUR.with(|c| c.set((std::ptr::null(), 0)));
        let mut s = self.st.lock().unwrap();
        s.finished[me] = true;
        s.blocked[me] = false;
        s.progress += 1;
        if s.current == me || s.current == NOBODY {
            s.current = Self::pick_next(&mut s, self.n, me, false).unwrap_or(NOBODY);
        }
        self.cv.notify_all();
    }

    /// (trace hash, yield points, context switches, labels at which a switch happened)
    /// Number of times a worker was found blocked (see STALL_MS).
    pub fn stalls(&self) -> u64 {
        let _in = Inside::enter();
        self.st.lock().unwrap().stalls
    }

    /// (simulated futex waits, simulated wake-ups delivered)
    pub fn futex_stats(&self) -> (u64, u64) {
        let _in = Inside::enter();
        let s = self.st.lock().unwrap();
        (s.futex_waits, s.futex_wakes)
    }

    /// FUTEX_WAIT by worker `me`, which has the processor.
    fn futex_wait(&self, me: usize, addr: usize, val: u32, timed: bool) -> Option<i64> {
        let _in = Inside::enter();
        let mut s = self.st.lock().unwrap();
        if s.free_run || s.current != me {
            return None;
        }
        // SAFETY: the kernel would read the same word
        let cur = unsafe { (*(addr as *const std::sync::atomic::AtomicU32)).load(std::sync::atomic::Ordering::SeqCst) };
        if cur != val {
            return Some(-(libc::EAGAIN as i64));
        }
        s.progress += 1;
        s.futex_waits += 1;
        s.step += 1;
        s.trace_len += 1;
        s.trace_hash = crate::rng::mix(s.trace_hash, crate::rng::mix(me as u64, crate::rng::hash_str("futex-wait")));
        s.waiting[me] = Some(addr);
        s.woken[me] = false;
        s.timed[me] = timed;
        match Self::pick_next(&mut s, self.n, me, timed) {
            None => {
                // every unfinished worker waits for a wake-up that no scheduled worker can
                // deliver: the simulation cannot serve this, real waits and the clock take over
                s.waiting[me] = None;
                s.stalls += 1;
                s.free_run = true;
                self.cv.notify_all();
                return None;
            }
            Some(next) if next == me => {
                s.waiting[me] = None;
                return Some(-(libc::ETIMEDOUT as i64));
            }
            Some(next) => {
                s.switches += 1;
                if s.switched_in_label.len() < 64 {
                    let st = s.step;
                    s.switched_in_label.push(("futex-wait".to_string(), st));
                }
                s.current = next;
                self.cv.notify_all();
                s = self.wait_for_turn(s, me);
            }
        }
        let woken = s.woken[me];
        s.waiting[me] = None;
        s.woken[me] = false;
        if !woken && timed && !s.free_run {
            return Some(-(libc::ETIMEDOUT as i64));
        }
        // woken, or a spurious wake-up (the caller re-checks its condition)
        Some(0)
    }

    /// FUTEX_WAKE by worker `me`: wakes up to `n` simulated waiters (seeded choice).  Waking a
    /// simulated waiter is a scheduling point.  Real waiters (threads that are not scheduled
    /// workers) are woken by the real call.
    fn futex_wake(&self, me: usize, addr: usize, n: u32) -> Option<i64> {
        let woken = {
            let _in = Inside::enter();
            let mut s = self.st.lock().unwrap();
            if s.free_run {
                return None;
            }
            let mut waiters: Vec<usize> = (0..self.n).filter(|i| s.waiting[*i] == Some(addr) && !s.woken[*i]).collect();
            if waiters.is_empty() {
                return None;
            }
            let mut cnt = 0u32;
            while cnt < n && !waiters.is_empty() {
                let k = s.rng.below(waiters.len());
                let w = waiters.remove(k);
                s.woken[w] = true;
                cnt += 1;
            }
            s.futex_wakes += cnt as u64;
            cnt
        };
        let mut total = woken as i64;
        if woken < n {
            let r = unsafe { crate::entropy::raw_syscall6(libc::SYS_futex, addr, (FUTEX_WAKE | 128) as usize, (n - woken) as usize, 0, 0, 0) };
            if r > 0 {
                total += r as i64;
            }
        }
        if self.st_current_is(me) {
            self.yield_point(me, "futex-wake");
        }
        Some(total)
    }

    fn st_current_is(&self, me: usize) -> bool {
        let _in = Inside::enter();
        let s = self.st.lock().unwrap();
        s.current == me && !s.free_run
    }

    pub fn summary(&self) -> (u64, u64, u64, Vec<(String, u64)>, bool) {
        let _in = Inside::enter();
        let s = self.st.lock().unwrap();
        (
            s.trace_hash,
            s.trace_len,
            s.switches,
            s.switched_in_label.clone(),
            s.overrun,
        )
    }
}
