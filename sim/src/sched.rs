//! Seam S4: a cooperative, seeded scheduler for several caller threads sharing one loaded
//! file.  Workers are real OS threads, but exactly one is released at a time; a worker parks
//! at every yield point (cancellation poll, `tick`, `yield`, task boundary) and the scheduler
//! decides who runs next.  The recorded trace of (worker, label) grants is the schedule;
//! because no two workers ever run concurrently it replays exactly.

use std::sync::Condvar;
use std::sync::Mutex;

use crate::rng::Rng;

#[derive(Clone, Copy, Debug, PartialEq, Eq)]
pub enum Strategy {
    /// uniform choice among runnable workers with random quanta 1..=8
    Random,
    /// fixed quantum, workers in ring order
    RoundRobin(u32),
    /// each worker runs to completion in a seeded order
    RunToCompletion,
    /// PCT-style: seeded priorities, lowered at `d` seeded change points
    Pct(u32),
    /// one worker only runs when no other can (it is stalled mid-statement for long periods)
    Starve(usize),
}

impl Strategy {
    pub fn name(&self) -> String {
        match self {
            Strategy::Random => "random".into(),
            Strategy::RoundRobin(q) => format!("round-robin({})", q),
            Strategy::RunToCompletion => "run-to-completion".into(),
            Strategy::Pct(d) => format!("pct({})", d),
            Strategy::Starve(w) => format!("starve({})", w),
        }
    }
    pub fn parse(s: &str) -> Strategy {
        let num = |s: &str| -> u32 {
            s.chars()
                .filter(|c| c.is_ascii_digit())
                .collect::<String>()
                .parse()
                .unwrap_or(1)
        };
        if s.starts_with("round-robin") {
            Strategy::RoundRobin(num(s))
        } else if s.starts_with("run-to") {
            Strategy::RunToCompletion
        } else if s.starts_with("pct") {
            Strategy::Pct(num(s))
        } else if s.starts_with("starve") {
            Strategy::Starve(num(s) as usize)
        } else {
            Strategy::Random
        }
    }
}

const NOBODY: usize = usize::MAX;
/// Real time after which a worker that was handed the processor without reaching any yield
/// point is taken to be blocked (on a lock that a parked worker holds).
const STALL_MS: u64 = 250;
/// After this many stalls in one run the scheduler gives up control: all workers run freely.
const MAX_STALLS: u64 = 3;

struct State {
    current: usize,
    /// workers that were handed the processor but turned out to be blocked; they become
    /// runnable again when they arrive at their next yield point
    blocked: Vec<bool>,
    /// incremented whenever any worker arrives at a yield point or finishes
    progress: u64,
    stalls: u64,
    /// the scheduler has given up control for this run (see MAX_STALLS)
    free_run: bool,
    quantum: u32,
    finished: Vec<bool>,
    rng: Rng,
    strategy: Strategy,
    priorities: Vec<u64>,
    change_points: Vec<u64>,
    step: u64,
    switches: u64,
    trace_hash: u64,
    trace_len: u64,
    max_steps: u64,
    overrun: bool,
    switched_in_label: Vec<(String, u64)>,
}

pub struct Sched {
    st: Mutex<State>,
    cv: Condvar,
    n: usize,
}

impl Sched {
    pub fn new(n: usize, seed: u64, strategy: Strategy, est_steps: u64) -> Sched {
        let mut rng = Rng::new(seed);
        let mut priorities: Vec<u64> = (0..n as u64).map(|i| 1000 + i).collect();
        rng.shuffle(&mut priorities);
        let mut change_points = Vec::new();
        if let Strategy::Pct(d) = strategy {
            for _ in 0..d {
                change_points.push(rng.below(est_steps.max(2) as usize) as u64);
            }
            change_points.sort();
        }
        let first = match strategy {
            Strategy::Starve(w) => (0..n).find(|i| *i != w).unwrap_or(0),
            Strategy::Pct(_) => (0..n).max_by_key(|i| priorities[*i]).unwrap_or(0),
            _ => rng.below(n),
        };
        Sched {
            st: Mutex::new(State {
                current: first,
                blocked: vec![false; n],
                progress: 0,
                stalls: 0,
                free_run: false,
                quantum: 0,
                finished: vec![false; n],
                rng,
                strategy,
                priorities,
                change_points,
                step: 0,
                switches: 0,
                trace_hash: 0,
                trace_len: 0,
                max_steps: 2_000_000,
                overrun: false,
                switched_in_label: Vec::new(),
            }),
            cv: Condvar::new(),
            n,
        }
    }

    fn pick_next(s: &mut State, n: usize, me: usize, me_runnable: bool) -> Option<usize> {
        let runnable: Vec<usize> = (0..n)
            .filter(|i| !s.finished[*i] && !s.blocked[*i] && (*i != me || me_runnable))
            .collect();
        if runnable.is_empty() {
            return None;
        }
        Some(match s.strategy {
            Strategy::Random => {
                s.quantum = 1 + s.rng.below(8) as u32;
                runnable[s.rng.below(runnable.len())]
            }
            Strategy::RoundRobin(q) => {
                s.quantum = q.max(1);
                *runnable.iter().find(|i| **i > me).unwrap_or(&runnable[0])
            }
            Strategy::RunToCompletion => {
                s.quantum = u32::MAX;
                if me_runnable {
                    me
                } else {
                    runnable[s.rng.below(runnable.len())]
                }
            }
            Strategy::Pct(_) => {
                s.quantum = 1;
                while s.change_points.first().map(|c| *c <= s.step).unwrap_or(false) {
                    s.change_points.remove(0);
                    // demote the currently highest-priority runnable worker
                    if let Some(top) = runnable.iter().max_by_key(|i| s.priorities[**i]).cloned() {
                        s.priorities[top] = s.step.min(999);
                    }
                }
                *runnable.iter().max_by_key(|i| s.priorities[**i]).unwrap()
            }
            Strategy::Starve(w) => {
                s.quantum = 1 + s.rng.below(4) as u32;
                let others: Vec<usize> = runnable.iter().cloned().filter(|i| *i != w).collect();
                if others.is_empty() {
                    w
                } else if s.rng.chance(1, 50) && runnable.contains(&w) {
                    // let the starved worker make one step now and then, so it is stalled
                    // in the middle of its work rather than before it
                    s.quantum = 1;
                    w
                } else {
                    others[s.rng.below(others.len())]
                }
            }
        })
    }

    /// Waits until it is `me`'s turn.  If the worker that currently has the processor makes no
    /// progress for STALL_MS of real time (it never reaches a yield point: it is blocked, most
    /// likely on a lock that a parked worker — possibly `me` — holds because the library kept a
    /// lock across a yield point), that worker is marked blocked and `me` takes the processor,
    /// so that everybody can finish.  A blocked worker queues up again at its next yield point.
    /// After MAX_STALLS such events the scheduler lets all workers run freely.
    fn wait_for_turn<'a>(&'a self, mut s: std::sync::MutexGuard<'a, State>, me: usize) -> std::sync::MutexGuard<'a, State> {
        let mut seen = s.progress;
        while s.current != me && !s.free_run {
            if s.current == NOBODY {
                s.current = me;
                break;
            }
            let (g, t) = self
                .cv
                .wait_timeout(s, std::time::Duration::from_millis(STALL_MS))
                .unwrap();
            s = g;
            if s.current == me || s.free_run {
                break;
            }
            if t.timed_out() {
                if s.progress == seen && s.current != NOBODY && !s.finished[s.current] {
                    let b = s.current;
                    s.blocked[b] = true;
                    s.stalls += 1;
                    if s.stalls >= MAX_STALLS {
                        s.free_run = true;
                    }
                    s.current = me;
                    self.cv.notify_all();
                    break;
                }
                seen = s.progress;
            }
        }
        s
    }

    /// Blocks until worker `me` is scheduled for the first time.
    pub fn start(&self, me: usize) {
        let s = self.st.lock().unwrap();
        let _s = self.wait_for_turn(s, me);
    }

    /// A yield point reached by worker `me`.
    pub fn yield_point(&self, me: usize, label: &str) {
        let mut s = self.st.lock().unwrap();
        s.progress += 1;
        if s.free_run {
            return;
        }
        if s.current != me {
            // a worker that had been found blocked has got going again: it queues up
            s.blocked[me] = false;
            self.cv.notify_all();
            s = self.wait_for_turn(s, me);
            if s.free_run {
                return;
            }
        }
        s.step += 1;
        s.trace_len += 1;
        s.trace_hash = crate::rng::mix(
            s.trace_hash,
            crate::rng::mix(me as u64, crate::rng::hash_str(label)),
        );
        if s.step > s.max_steps {
            s.overrun = true;
        }
        if s.quantum > 1 {
            s.quantum -= 1;
            return;
        }
        let next = Self::pick_next(&mut s, self.n, me, true).unwrap_or(me);
        if next != me {
            s.switches += 1;
            if s.switched_in_label.len() < 64 {
                let st = s.step;
                s.switched_in_label.push((label.to_string(), st));
            }
            s.current = next;
            self.cv.notify_all();
            let _s = self.wait_for_turn(s, me);
        }
    }

    /// Worker `me` has finished all its tasks.
    pub fn finish(&self, me: usize) {
        let mut s = self.st.lock().unwrap();
        s.finished[me] = true;
        s.blocked[me] = false;
        s.progress += 1;
        if s.current == me || s.current == NOBODY {
            s.current = Self::pick_next(&mut s, self.n, me, false).unwrap_or(NOBODY);
        }
        self.cv.notify_all();
    }

    /// (trace hash, yield points, context switches, labels at which a switch happened)
    /// Number of times a worker was found blocked (see STALL_MS).
    pub fn stalls(&self) -> u64 {
        self.st.lock().unwrap().stalls
    }

    pub fn summary(&self) -> (u64, u64, u64, Vec<(String, u64)>, bool) {
        let s = self.st.lock().unwrap();
        (
            s.trace_hash,
            s.trace_len,
            s.switches,
            s.switched_in_label.clone(),
            s.overrun,
        )
    }
}
