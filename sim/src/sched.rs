//! Seam S4: a cooperative, seeded scheduler for several caller threads sharing one loaded
//! file.  Workers are real OS threads, but exactly one is released at a time; a worker parks
//! at every yield point (cancellation poll, `tick`, `yield`, task boundary) and the scheduler
//! decides who runs next.  The recorded trace of (worker, label) grants is the schedule;
//! because no two workers ever run concurrently it replays exactly.

use std::sync::Condvar;
use std::sync::Mutex;

use crate::rng::Rng;

#[derive(Clone, Copy, Debug, PartialEq, Eq)]
pub enum Strategy {
    /// uniform choice among runnable workers with random quanta 1..=8
    Random,
    /// fixed quantum, workers in ring order
    RoundRobin(u32),
    /// each worker runs to completion in a seeded order
    RunToCompletion,
    /// PCT-style: seeded priorities, lowered at `d` seeded change points
    Pct(u32),
    /// one worker only runs when no other can (it is stalled mid-statement for long periods)
    Starve(usize),
}

impl Strategy {
    pub fn name(&self) -> String {
        match self {
            Strategy::Random => "random".into(),
            Strategy::RoundRobin(q) => format!("round-robin({})", q),
            Strategy::RunToCompletion => "run-to-completion".into(),
            Strategy::Pct(d) => format!("pct({})", d),
            Strategy::Starve(w) => format!("starve({})", w),
        }
    }
    pub fn parse(s: &str) -> Strategy {
        let num = |s: &str| -> u32 {
            s.chars()
                .filter(|c| c.is_ascii_digit())
                .collect::<String>()
                .parse()
                .unwrap_or(1)
        };
        if s.starts_with("round-robin") {
            Strategy::RoundRobin(num(s))
        } else if s.starts_with("run-to") {
            Strategy::RunToCompletion
        } else if s.starts_with("pct") {
            Strategy::Pct(num(s))
        } else if s.starts_with("starve") {
            Strategy::Starve(num(s) as usize)
        } else {
            Strategy::Random
        }
    }
}

struct State {
    current: usize,
    quantum: u32,
    finished: Vec<bool>,
    rng: Rng,
    strategy: Strategy,
    priorities: Vec<u64>,
    change_points: Vec<u64>,
    step: u64,
    switches: u64,
    trace_hash: u64,
    trace_len: u64,
    max_steps: u64,
    overrun: bool,
    switched_in_label: Vec<(String, u64)>,
}

pub struct Sched {
    st: Mutex<State>,
    cv: Condvar,
    n: usize,
}

impl Sched {
    pub fn new(n: usize, seed: u64, strategy: Strategy, est_steps: u64) -> Sched {
        let mut rng = Rng::new(seed);
        let mut priorities: Vec<u64> = (0..n as u64).map(|i| 1000 + i).collect();
        rng.shuffle(&mut priorities);
        let mut change_points = Vec::new();
        if let Strategy::Pct(d) = strategy {
            for _ in 0..d {
                change_points.push(rng.below(est_steps.max(2) as usize) as u64);
            }
            change_points.sort();
        }
        let first = match strategy {
            Strategy::Starve(w) => (0..n).find(|i| *i != w).unwrap_or(0),
            Strategy::Pct(_) => (0..n).max_by_key(|i| priorities[*i]).unwrap_or(0),
            _ => rng.below(n),
        };
        Sched {
            st: Mutex::new(State {
                current: first,
                quantum: 0,
                finished: vec![false; n],
                rng,
                strategy,
                priorities,
                change_points,
                step: 0,
                switches: 0,
                trace_hash: 0,
                trace_len: 0,
                max_steps: 2_000_000,
                overrun: false,
                switched_in_label: Vec::new(),
            }),
            cv: Condvar::new(),
            n,
        }
    }

    fn pick_next(s: &mut State, n: usize, me: usize, me_runnable: bool) -> Option<usize> {
        let runnable: Vec<usize> = (0..n)
            .filter(|i| !s.finished[*i] && (*i != me || me_runnable))
            .collect();
        if runnable.is_empty() {
            return None;
        }
        Some(match s.strategy {
            Strategy::Random => {
                s.quantum = 1 + s.rng.below(8) as u32;
                runnable[s.rng.below(runnable.len())]
            }
            Strategy::RoundRobin(q) => {
                s.quantum = q.max(1);
                *runnable.iter().find(|i| **i > me).unwrap_or(&runnable[0])
            }
            Strategy::RunToCompletion => {
                s.quantum = u32::MAX;
                if me_runnable {
                    me
                } else {
                    runnable[s.rng.below(runnable.len())]
                }
            }
            Strategy::Pct(_) => {
                s.quantum = 1;
                while s.change_points.first().map(|c| *c <= s.step).unwrap_or(false) {
                    s.change_points.remove(0);
                    // demote the currently highest-priority runnable worker
                    if let Some(top) = runnable.iter().max_by_key(|i| s.priorities[**i]).cloned() {
                        s.priorities[top] = s.step.min(999);
                    }
                }
                *runnable.iter().max_by_key(|i| s.priorities[**i]).unwrap()
            }
            Strategy::Starve(w) => {
                s.quantum = 1 + s.rng.below(4) as u32;
                let others: Vec<usize> = runnable.iter().cloned().filter(|i| *i != w).collect();
                if others.is_empty() {
                    w
                } else if s.rng.chance(1, 50) && runnable.contains(&w) {
                    // let the starved worker make one step now and then, so it is stalled
                    // in the middle of its work rather than before it
                    s.quantum = 1;
                    w
                } else {
                    others[s.rng.below(others.len())]
                }
            }
        })
    }

    /// Blocks until worker `me` is scheduled for the first time.
    pub fn start(&self, me: usize) {
        let mut s = self.st.lock().unwrap();
        while s.current != me {
            s = self.cv.wait(s).unwrap();
        }
    }

    /// A yield point reached by the running worker `me`.
    pub fn yield_point(&self, me: usize, label: &str) {
        let mut s = self.st.lock().unwrap();
        debug_assert_eq!(s.current, me);
        s.step += 1;
        s.trace_len += 1;
        s.trace_hash = crate::rng::mix(
            s.trace_hash,
            crate::rng::mix(me as u64, crate::rng::hash_str(label)),
        );
        if s.step > s.max_steps {
            s.overrun = true;
        }
        if s.quantum > 1 {
            s.quantum -= 1;
            return;
        }
        let next = Self::pick_next(&mut s, self.n, me, true).unwrap_or(me);
        if next != me {
            s.switches += 1;
            if s.switched_in_label.len() < 64 {
                let st = s.step;
                s.switched_in_label.push((label.to_string(), st));
            }
            s.current = next;
            self.cv.notify_all();
            while s.current != me {
                s = self.cv.wait(s).unwrap();
            }
        }
    }

    /// Worker `me` has finished all its tasks.
    pub fn finish(&self, me: usize) {
        let mut s = self.st.lock().unwrap();
        s.finished[me] = true;
        if let Some(next) = Self::pick_next(&mut s, self.n, me, false) {
            s.current = next;
        } else {
            s.current = usize::MAX;
        }
        self.cv.notify_all();
    }

    /// (trace hash, yield points, context switches, labels at which a switch happened)
    pub fn summary(&self) -> (u64, u64, u64, Vec<(String, u64)>, bool) {
        let s = self.st.lock().unwrap();
        (
            s.trace_hash,
            s.trace_len,
            s.switches,
            s.switched_in_label.clone(),
            s.overrun,
        )
    }
}
